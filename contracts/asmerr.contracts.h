/* Contracts for /repo/asmerr.c (properties C02 and C20).
 *
 * C02: every diagnostic that is not suppressed moves exactly one of the two counters by
 * exactly one (which one: warning unless -Werror turns it into an error), reaches at
 * least one output channel, and a fatal one (or the error limit) ends the run with
 * status 3.  Ghost: g_lst_lines / g_err_lines / g_con_lines (lines handed to the listing,
 * the error file, the console), g_exit_code (-1 = exit not called).
 * C20: EXPECT/ENDEXPECT suppress exactly the announced numbers (multiset with witness
 * number gk_num) and report every announced number that did not occur.
 */
#ifndef ASMERR_CONTRACTS_H
#define ASMERR_CONTRACTS_H
#include "stdinc.h"
#include "asmerr.h"
#include "asmdef.h"

extern unsigned long g_lst_lines, g_err_lines, g_con_lines;
extern int           g_exit_code;
extern unsigned long g_o_errc, g_o_warnc;
extern int           gk_num, g_unlink_out;

#define IS_WARNING(Warning, Fatal) ((Warning) && !(TreatWarningsAsErrors && !(Fatal)))

#ifdef VERIF_CBMC
void WrErrorString(char const* pMessage, char const* pAdd, Boolean Warning, Boolean Fatal, char const* pExtendError,
                   const struct sLineComp* pLineComp)
    /* stated assumption: fewer than 2^32 - 1 diagnostics per pass */
    __CPROVER_requires(ErrorCount < 0xffffffffu && WarnCount < 0xffffffffu)
    __CPROVER_requires(g_exit_code == -1)
    /* (returns only when the run goes on) exactly one counter moved by one */
    __CPROVER_ensures(IS_WARNING(Warning, Fatal) ? (WarnCount == __CPROVER_old(WarnCount) + 1 && ErrorCount == __CPROVER_old(ErrorCount))
                                                 : (ErrorCount == __CPROVER_old(ErrorCount) + 1 && WarnCount == __CPROVER_old(WarnCount)))
    /* the text went somewhere */
    __CPROVER_ensures(g_lst_lines + g_err_lines + g_con_lines > __CPROVER_old(g_lst_lines) + __CPROVER_old(g_err_lines) + __CPROVER_old(g_con_lines))
    /* returning means: not fatal and the error limit was not reached */
    __CPROVER_ensures(!Fatal && !(MaxErrors && ErrorCount >= MaxErrors) && g_exit_code == -1)
    __CPROVER_assigns(ErrorCount, WarnCount, g_lst_lines, g_err_lines, g_con_lines, g_exit_code, g_unlink_out)
    __CPROVER_assigns(ErrorFile, LstFile, ShareFile, MacProFile, MacroFile, Debug, PrgFile);
#endif
#endif
