/* C14 harness: the Intel 4004/4040 code generator of the real /repo/code4004.c against an independent
 * reference of the MCS-4 / MCS-40 instruction set (opcode table written from the Intel data sheets, not from the code).
 * The formula evaluator is an oracle constrained by its own contract (OK => the value fits the requested integer type;
 * that contract is the obligation of rng_EvalStrInt_range); register aliases are an oracle. */
#include "verif.h"
#include <stdio.h>
#include <stdlib.h>
#include <string.h>
#include "stdinc.h"
#include "asmdef.h"
#include "asmsub.h"
#include "asmpars.h"
#include "asmitree.h"
#include "errmsg.h"
#include "stubs/gerr.h"
#include <ctype.h>

/* ---- environment ------------------------------------------------------------------------------------- */
typedef struct { char const* name; Word code; InstProc proc; } tabent_t;
static tabent_t g_tab[96]; static int g_ntab;
void AddInstTable(PInstTable tab, char const* Name, Word Index, InstProc Proc) { (void)tab; if (g_ntab >= 0 && g_ntab < 96) { g_tab[g_ntab].name = Name; g_tab[g_ntab].code = Index; g_tab[g_ntab].proc = Proc; } g_ntab++; }
PInstTable CreateInstTable(int TableSize) { static TInstTable t; (void)TableSize; return &t; }
static long long g_ev_val[2]; static int g_ev_ok[2]; static unsigned g_ev_flags[2]; static int g_ev_calls; static int g_ev_type[2];
static long long type_max(IntType t) { return t == UInt4 ? 15 : t == UInt12 ? 4095 : t == Int8 ? 255 : 0x7fffffff; }
static long long type_min(IntType t) { return t == Int8 ? -128 : 0; }
LargeInt EvalStrIntExpressionWithFlags(tStrComp const* pExpr, IntType Type, Boolean* pResult, tSymbolFlags* pFlags) {
    int k = g_ev_calls++ & 1; (void)pExpr;
    g_ev_type[k] = Type; *pResult = (Boolean)(g_ev_ok[k] != 0); if (pFlags) *pFlags = (tSymbolFlags)g_ev_flags[k];
    /* contract of the evaluator: a value that is handed out as OK fits the requested type */
    VASSUME(!g_ev_ok[k] || (g_ev_val[k] >= type_min(Type) && g_ev_val[k] <= type_max(Type)));
    return g_ev_ok[k] ? g_ev_val[k] : -1;
}
LargeInt EvalStrIntExpression(tStrComp const* pExpr, IntType Type, Boolean* pResult) { return EvalStrIntExpressionWithFlags(pExpr, Type, pResult, NULL); }
static int g_alias_is_reg; static unsigned g_alias_reg; static int g_alias_size;
tRegEvalResult EvalStrRegExpressionAsOperand(const struct sStrComp* pArg, struct sRegDescr* pResult, struct sEvalResult* pEvalResult, tSymbolSize ReqSize, Boolean MustBeReg) {
    (void)pArg; (void)pEvalResult; (void)MustBeReg; g_alias_size = ReqSize; pResult->Reg = g_alias_reg; pResult->Dissect = NULL;
    if (!g_alias_is_reg) { g_err_cnt++; g_err_last = ErrNum_InvReg; return eIsNoReg; }
    return eIsReg;
}
Boolean ChkMinCPUExt(CPUVar MinCPU, tErrorNum ErrorNum) { if (MomCPU < MinCPU) { g_err_cnt++; g_err_last = (int)ErrorNum; return False; } return True; }
Boolean ChkSamePage(LargeWord CurrAddr, LargeWord DestAddr, unsigned PageBits, tSymbolFlags DestFlags) {   /* errmsg.c, faithful */
    LargeWord Mask = ~((1ul << PageBits) - 1); Boolean Result = ((CurrAddr & Mask) == (DestAddr & Mask)) || mFirstPassUnknownOrQuestionable(DestFlags);
    if (!Result) { g_err_cnt++; g_err_last = ErrNum_TargOnDiffPage; }
    return Result;
}
static unsigned long long g_epc;
LargeWord EProgCounter(void) { return (LargeWord)g_epc; }
static int up(int c) { return (c >= 'a' && c <= 'z') ? c - 32 : c; }
int as_toupper(int c) { return up(c); }
int as_strcasecmp(char const* a, char const* b) { int i; for (i = 0; i < 8; i++) { int x = up((unsigned char)a[i]), y = up((unsigned char)b[i]); if (x != y) return x - y; if (!x) return 0; } return 0; }
static int mon0(void) { return 0; }
#define as_snprintf(...) mon0()
#undef isdigit
#define isdigit(c) ((c) >= '0' && (c) <= '9')
#include "contracts/loop_defaults.h"
#include "code4004.c" /* the real /repo/code4004.c */
#undef as_snprintf

/* ---- reference instruction set (Intel MCS-4 Users Manual / MCS-40 data sheet) ------------------------- */
enum { K_FIXED, K_REG, K_PAIR, K_ACCREG, K_IMM4, K_JCN, K_JUN, K_JMS, K_ISZ, K_FIM };
typedef struct { char const* mn; unsigned char op; unsigned char kind; unsigned char is4040; } ref_t;
static const ref_t ref[] = {
    {"NOP", 0x00, K_FIXED, 0}, {"JCN", 0x10, K_JCN, 0}, {"FIM", 0x20, K_FIM, 0}, {"SRC", 0x21, K_PAIR, 0}, {"FIN", 0x30, K_PAIR, 0}, {"JIN", 0x31, K_PAIR, 0},
    {"JUN", 0x40, K_JUN, 0}, {"JMS", 0x50, K_JMS, 0}, {"INC", 0x60, K_REG, 0}, {"ISZ", 0x70, K_ISZ, 0}, {"ADD", 0x80, K_ACCREG, 0}, {"SUB", 0x90, K_ACCREG, 0},
    {"LD", 0xA0, K_ACCREG, 0}, {"XCH", 0xB0, K_ACCREG, 0}, {"BBL", 0xC0, K_IMM4, 0}, {"LDM", 0xD0, K_IMM4, 0},
    {"WRM", 0xE0, K_FIXED, 0}, {"WMP", 0xE1, K_FIXED, 0}, {"WRR", 0xE2, K_FIXED, 0}, {"WPM", 0xE3, K_FIXED, 0}, {"WR0", 0xE4, K_FIXED, 0}, {"WR1", 0xE5, K_FIXED, 0},
    {"WR2", 0xE6, K_FIXED, 0}, {"WR3", 0xE7, K_FIXED, 0}, {"SBM", 0xE8, K_FIXED, 0}, {"RDM", 0xE9, K_FIXED, 0}, {"RDR", 0xEA, K_FIXED, 0}, {"ADM", 0xEB, K_FIXED, 0},
    {"RD0", 0xEC, K_FIXED, 0}, {"RD1", 0xED, K_FIXED, 0}, {"RD2", 0xEE, K_FIXED, 0}, {"RD3", 0xEF, K_FIXED, 0},
    {"CLB", 0xF0, K_FIXED, 0}, {"CLC", 0xF1, K_FIXED, 0}, {"IAC", 0xF2, K_FIXED, 0}, {"CMC", 0xF3, K_FIXED, 0}, {"CMA", 0xF4, K_FIXED, 0}, {"RAL", 0xF5, K_FIXED, 0},
    {"RAR", 0xF6, K_FIXED, 0}, {"TCC", 0xF7, K_FIXED, 0}, {"DAC", 0xF8, K_FIXED, 0}, {"TCS", 0xF9, K_FIXED, 0}, {"STC", 0xFA, K_FIXED, 0}, {"DAA", 0xFB, K_FIXED, 0},
    {"KBP", 0xFC, K_FIXED, 0}, {"DCL", 0xFD, K_FIXED, 0},
    {"HLT", 0x01, K_FIXED, 1}, {"BBS", 0x02, K_FIXED, 1}, {"LCR", 0x03, K_FIXED, 1}, {"OR4", 0x04, K_FIXED, 1}, {"OR5", 0x05, K_FIXED, 1}, {"AN6", 0x06, K_FIXED, 1},
    {"AN7", 0x07, K_FIXED, 1}, {"DB0", 0x08, K_FIXED, 1}, {"DB1", 0x09, K_FIXED, 1}, {"SB0", 0x0A, K_FIXED, 1}, {"SB1", 0x0B, K_FIXED, 1}, {"EIN", 0x0C, K_FIXED, 1},
    {"DIN", 0x0D, K_FIXED, 1}, {"RPM", 0x0E, K_FIXED, 1},
};
#define NREF ((int)(sizeof(ref) / sizeof(ref[0])))
static int str_eq(char const* a, char const* b) { int i; for (i = 0; i < 5; i++) { if (a[i] != b[i]) return 0; if (!a[i]) return 1; } return 1; }
static int find(char const* mn) { int k; for (k = 0; k < 96; k++) if (k < g_ntab && str_eq(g_tab[k].name, mn)) return k; return -1; }

/* every documented mnemonic is in the table with its documented opcode, operand form and minimum CPU */
void h_table(void) {
    int i;
    CPU4004 = 1; CPU4040 = 2; g_ntab = 0;
    InitFields();
    for (i = 0; i < NREF; i++) {
        int k = find(ref[i].mn); unsigned code;
        VPOST(k >= 0, "C14: every documented 4004/4040 mnemonic is known");
        code = g_tab[k].code;
        switch (ref[i].kind) {
        case K_FIXED: VPOST(g_tab[k].proc == DecodeFixed && (code & 0xff) == ref[i].op && (code >> 8) == ref[i].is4040, "C14: no-operand instructions: documented opcode and minimum CPU (4040 additions only on the 4040)"); break;
        case K_REG: VPOST(g_tab[k].proc == DecodeOneReg && code == ref[i].op, "C14: INC r opcode"); break;
        case K_PAIR: VPOST(g_tab[k].proc == DecodeOneRReg && code == ref[i].op, "C14: register-pair instructions (SRC/FIN/JIN) opcodes"); break;
        case K_ACCREG: VPOST(g_tab[k].proc == DecodeAccReg && code == ref[i].op, "C14: accumulator-register instructions (ADD/SUB/LD/XCH) opcodes"); break;
        case K_IMM4: VPOST(g_tab[k].proc == DecodeImm4 && code == ref[i].op, "C14: 4-bit immediate instructions (BBL/LDM) opcodes"); break;
        case K_JCN: VPOST(g_tab[k].proc == DecodeJCN, "C14: JCN handler"); break;
        case K_JUN: VPOST(g_tab[k].proc == DecodeFullJmp && code == 0, "C14: JUN handler"); break;
        case K_JMS: VPOST(g_tab[k].proc == DecodeFullJmp && code == 1, "C14: JMS handler"); break;
        case K_ISZ: VPOST(g_tab[k].proc == DecodeISZ, "C14: ISZ handler"); break;
        case K_FIM: VPOST(g_tab[k].proc == DecodeFIM, "C14: FIM handler"); break;
        }
    }
    VREACH("end");
}

/* ---- operand syntax: reference readings of register and register-pair names ---------------------------- */
static int hexdig(int c) { c = up(c); return (c >= '0' && c <= '9') ? c - '0' : (c >= 'A' && c <= 'F') ? c - 'A' + 10 : -1; }
static int decdig(int c) { return (c >= '0' && c <= '9') ? c - '0' : -1; }
/* "Rn": n one hex digit, or two decimal digits 00..15; returns -1 if the text is not a literal register */
static int spec_reg(char const* s, int l) {
    if (l < 2 || l > 3 || up(s[0]) != 'R') return -1;
    if (l == 2) return hexdig(s[1]);
    if (decdig(s[1]) < 0 || decdig(s[2]) < 0) return -1;
    return (decdig(s[1]) * 10 + decdig(s[2]) <= 15) ? decdig(s[1]) * 10 + decdig(s[2]) : -1;
}
static char a1[8], a2[8]; static tStrComp args[3];
static int mk_args(void) {
    int l, i;
    VND(l, int); VASSUME(l >= 0 && l <= 6);
    for (i = 0; i < 7; i++) { VND(a1[i], char); if (i < l) VASSUME(a1[i] != 0); }
    a1[l] = 0; a1[7] = 0; a2[0] = 'x'; a2[1] = 0;
    args[1].str.p_str = a1; args[1].str.capacity = 8; args[2].str.p_str = a2; args[2].str.capacity = 8; ArgStr = args;
    BAsmCode = malloc(8); VASSUME(BAsmCode != NULL); BAsmCode[0] = BAsmCode[1] = 0x55;
    CodeLen = 0; CPU4004 = 1; CPU4040 = 2; VND(MomCPU, int); VASSUME(MomCPU == 1 || MomCPU == 2);
    VND(g_ev_val[0], i64); VND(g_ev_val[1], i64); VND(g_ev_ok[0], int); VND(g_ev_ok[1], int); VND(g_ev_flags[0], uint); VND(g_ev_flags[1], uint); g_ev_calls = 0;
    VND(g_alias_is_reg, int); VND(g_alias_reg, uint); VASSUME(g_alias_reg <= 15);
    VND(g_err_cnt, ulong); VASSUME(g_err_cnt < 1000000); VND(g_epc, u64); VASSUME(g_epc <= 0xfff);
    return l;
}

void h_DecodeFixed(void) {
    unsigned op, m; unsigned long ec;
    (void)mk_args(); VND(ArgCnt, int); VASSUME(ArgCnt >= 0 && ArgCnt <= 3);
    VND(op, uint); VND(m, uint); VASSUME(op <= 0xff && m <= 1); ec = g_err_cnt;
    DecodeFixed((Word)(op | (m << 8)));
    if (ArgCnt == 0 && MomCPU >= 1 + (int)m) { VPOST(CodeLen == 1 && BAsmCode[0] == op && g_err_cnt == ec, "C14: a no-operand instruction is its one opcode byte"); VREACH("ok"); }
    else { VPOST(CodeLen == 0 && g_err_cnt == ec + 1, "C14: operands on a no-operand instruction, or a 4040 instruction on the 4004, are rejected"); VREACH("rej"); }
}
void h_DecodeOneReg(void) {
    int l, r; unsigned op; unsigned long ec;
    l = mk_args(); ArgCnt = 1; VND(op, uint); VASSUME(op == 0x60 || op == 0x80 || op == 0xA0); ec = g_err_cnt;
    r = spec_reg(a1, l);
    DecodeOneReg((Word)op);
    if (r >= 0) { VPOST(CodeLen == 1 && BAsmCode[0] == op + (unsigned)r && g_err_cnt == ec, "C14: Rn (n = 0..F, or 00..15) encodes register n in the low nibble"); VREACH("literal"); }
    else if (g_alias_is_reg) { VPOST(CodeLen == 1 && BAsmCode[0] == op + g_alias_reg && g_alias_size == eSymbolSize8Bit, "C14: a register alias encodes the register it stands for"); VREACH("alias"); }
    else { VPOST(CodeLen == 0 && g_err_cnt > ec, "C14: anything else is not a register: error, no code"); VREACH("rej"); }
}
void h_DecodeOneRReg(void) {
    int l, p = -1; unsigned op; unsigned long ec;
    l = mk_args(); ArgCnt = 1; VND(op, uint); VASSUME(op == 0x21 || op == 0x30 || op == 0x31); ec = g_err_cnt;
    /* pair n (0..7): "RnP" (n written like a register number) or "R<2n>R<2n+1>" */
    if (l >= 3 && l <= 4 && up(a1[l - 1]) == 'P') { int r = spec_reg(a1, l - 1); if (r >= 0 && r <= 7) p = r; }
    if (p < 0 && l >= 4 && l <= 6 && up(a1[0]) == 'R') {
        int i, second = -1;
        for (i = 1; i < 6; i++) if (i < l && second < 0 && up(a1[i]) == 'R') second = i;
        if (second >= 2 && second < l - 1) {
            int lo = spec_reg(a1, second), hi; char tmp[4]; int hl = l - second;
            tmp[0] = 'R'; tmp[1] = a1[second + 1]; tmp[2] = (hl >= 3) ? a1[second + 2] : 0; tmp[3] = 0;
            hi = (hl >= 2 && hl <= 3) ? spec_reg(tmp, hl) : -1;
            if (lo >= 0 && hi >= 0 && (hi & 1) && hi == lo + 1) p = lo >> 1;
        }
    }
    DecodeOneRReg((Word)op);
    if (p >= 0) { VPOST(CodeLen == 1 && BAsmCode[0] == op + 2 * (unsigned)p && g_err_cnt == ec, "C14: register pair n (RnP or R<2n>R<2n+1>) encodes as 2n in the low nibble"); VREACH("literal"); }
    else if (g_alias_is_reg) { VPOST(CodeLen == 1 && BAsmCode[0] == op + g_alias_reg && g_alias_size == eSymbolSize16Bit, "C14: a register-pair alias encodes the pair it stands for"); VREACH("alias"); }
    else { VPOST(CodeLen == 0 && g_err_cnt > ec, "C14: an odd/even mismatch or malformed pair name is rejected"); VREACH("rej"); }
}
void h_DecodeImm4(void) {
    unsigned op; unsigned long ec;
    (void)mk_args(); ArgCnt = 1; VND(op, uint); VASSUME(op == 0xC0 || op == 0xD0); ec = g_err_cnt;
    DecodeImm4((Word)op);
    VPOST(g_ev_calls == 1 && g_ev_type[0] == UInt4, "C14: the immediate is evaluated as a 4-bit unsigned value (larger values are rejected by the evaluator)");
    if (g_ev_ok[0]) { VPOST(CodeLen == 1 && BAsmCode[0] == op + (unsigned)g_ev_val[0], "C14: BBL/LDM carry the immediate in the low nibble"); VREACH("ok"); }
    else { VPOST(CodeLen == 0, "C14: no code for a rejected immediate"); VREACH("rej"); }
}
void h_DecodeFullJmp(void) {
    unsigned idx;
    (void)mk_args(); ArgCnt = 1; VND(idx, uint); VASSUME(idx <= 1);
    DecodeFullJmp((Word)idx);
    VPOST(g_ev_calls == 1 && g_ev_type[0] == UInt12, "C14: JUN/JMS take a 12-bit address (larger ones are rejected by the evaluator)");
    if (g_ev_ok[0]) { VPOST(CodeLen == 2 && BAsmCode[0] == (idx ? 0x50u : 0x40u) + ((unsigned)g_ev_val[0] >> 8) && BAsmCode[1] == ((unsigned)g_ev_val[0] & 0xff), "C14: JUN/JMS: opcode nibble, then the 12-bit address high nibble first"); VREACH("ok"); }
    else { VPOST(CodeLen == 0, "C14: no code for a rejected address"); VREACH("rej"); }
}
void h_DecodeISZ(void) {
    int l, r; unsigned long ec;
    l = mk_args(); ArgCnt = 2; ec = g_err_cnt; r = spec_reg(a1, l);
    VASSUME(r >= 0);                                              /* register syntax is h_DecodeOneReg's subject */
    g_ev_flags[0] &= ~(unsigned)(eSymbolFlag_FirstPassUnknown | eSymbolFlag_Questionable);
    DecodeISZ(0);
    /* MCS-4 manual: the 8-bit address is combined with the page of the NEXT instruction (an ISZ/JCN in words 254/255 of a page jumps into the next page) */
    if (g_ev_ok[0] && (((g_epc + 2) >> 8) == ((unsigned long long)g_ev_val[0] >> 8))) {
        VPOST(CodeLen == 2 && BAsmCode[0] == 0x70u + (unsigned)r && BAsmCode[1] == ((unsigned)g_ev_val[0] & 0xff) && g_err_cnt == ec, "C14: ISZ r,addr: 7r, low address byte; the target lies in the page of the next instruction");
        VREACH("ok");
    } else { VPOST(CodeLen == 0, "C14: an ISZ target in another page is rejected instead of being truncated"); VPOST(!g_ev_ok[0] || g_err_cnt == ec + 1, "C14: ... with an error"); VREACH("rej"); }
}
void h_DecodeJCN(void) {
    int l, i, cond = 0, letters = 1; unsigned long ec;
    l = mk_args(); ArgCnt = 2; ec = g_err_cnt;
    VASSUME(l <= 4);
    for (i = 0; i < 4; i++) if (i < l) { int c = up(a1[i]); if (c == 'Z') cond |= 4; else if (c == 'C') cond |= 2; else if (c == 'T') cond |= 1; else if (c == 'N') cond |= 8; else letters = 0; }
    g_ev_flags[0] &= ~(unsigned)eSymbolFlag_Questionable; g_ev_flags[1] &= ~(unsigned)eSymbolFlag_Questionable;
    DecodeJCN(0);
    {
        int k = letters ? 0 : 1;                                  /* index of the address evaluation */
        int cond_ok = letters || g_ev_ok[0]; unsigned c = letters ? (unsigned)cond : (unsigned)g_ev_val[0];
        if (cond_ok && g_ev_ok[k] && (((g_epc + 2) >> 8) & 0xff) == (((unsigned long long)g_ev_val[k] >> 8) & 0xff)) {
            VPOST(CodeLen == 2 && BAsmCode[0] == (0x10u | c) && BAsmCode[1] == ((unsigned)g_ev_val[k] & 0xff) && g_err_cnt == ec, "C14: JCN cond,addr: 1c (c from the letters T=1 C=2 Z=4 N=8 or a 4-bit value), low address byte, same page as the next instruction");
            VREACH("ok");
        } else { VPOST(CodeLen == 0, "C14: a JCN target in another page (or a bad condition) produces no code"); VREACH("rej"); }
    }
}
void h_DecodeFIM(void) {
    int l, r; unsigned long ec;
    l = mk_args(); ArgCnt = 2; ec = g_err_cnt;
    VASSUME(l >= 3 && l <= 4 && up(a1[l - 1]) == 'P'); r = spec_reg(a1, l - 1); VASSUME(r >= 0 && r <= 7);   /* pair syntax is h_DecodeOneRReg's subject */
    DecodeFIM(0);
    VPOST(g_ev_calls == 1 && g_ev_type[0] == Int8, "C14: FIM takes an 8-bit immediate (signed or unsigned; others are rejected by the evaluator)");
    if (g_ev_ok[0]) { VPOST(CodeLen == 2 && BAsmCode[0] == 0x20u + 2 * (unsigned)r && BAsmCode[1] == ((unsigned)g_ev_val[0] & 0xff) && g_err_cnt == ec, "C14: FIM p,data: 2(2p), data byte"); VREACH("ok"); }
    else { VPOST(CodeLen == 0, "C14: no code for a rejected immediate"); VREACH("rej"); }
}
