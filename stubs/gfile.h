/* gfile.h -- ghost model of stdio on regular files (trusted base of C04..C07).
 *
 * A file is (len, pos) plus ONE witness cell (w_off, w_val): the byte at offset w_off.
 * All other bytes are unconstrained: reads return arbitrary data for them, writes to
 * them are not recorded.  The harness picks w_off nondeterministically, so a fact
 * proved about the witness byte holds for every byte.
 * fread/fwrite/fseek/ftell/fgetc/fputc/fclose/fflush/rewind/feof update (pos, len) exactly.
 * Up to two files: gf[0] (source / code file being read), gf[1] (target being written).
 */
#ifndef GFILE_H
#define GFILE_H
#include <stdio.h>
typedef struct {
    long          pos, len;      /* 0 <= pos; len >= 0 */
    long          w_off;         /* witness offset */
    unsigned char w_val;         /* witness value (valid if w_off < len) */
    int           is_open;
    int           fail_writes;   /* oracle: the next write fails (short write) */
    unsigned long n_write_calls, n_read_calls, bytes_written;
    int           io_error;      /* a read/write came up short */
} gfile_t;
extern gfile_t gf[2];
/* optional script for gf[0]: the next small reads (<= 8 bytes, destination other than
 * gf_noscript_ptr) deliver these little-endian values instead of arbitrary bytes */
extern unsigned long gf_script[16];
extern int           gf_script_n, gf_script_i;
extern void*         gf_noscript_ptr;
/* "cell mode" (pass-through tools such as pbind/p2bin that only move a transfer buffer from
 * fread to fwrite): bulk transfers (> 8 bytes or into gf_noscript_ptr) never touch the real
 * buffer; the one witness byte travels in a ghost cell (address + value).  A byte written from
 * an address other than the cell's is unknown (arbitrary). */
extern int            gf_cell_mode, gf_cell_valid;
extern unsigned char* gf_cell_addr;
extern unsigned char  gf_cell_val;
extern unsigned char* gf_unif_ptr;
extern unsigned char  gf_unif_val;
extern unsigned long  gf_unif_n;
extern int     verif_errno;
#define GF_FILE(i) ((FILE*)&gf[i])
#endif
