/* gerr.c -- see gerr.h */
#include "stdinc.h"
#include "gerr.h"
#include "asmerr.h"
unsigned long g_err_cnt;
int           g_err_last;

void WrError(tErrorNum Num) {
    g_err_cnt++;
    g_err_last = (int)Num;
}
void WrXError(tErrorNum Num, char const* pExtError) {
    (void)pExtError;
    g_err_cnt++;
    g_err_last = (int)Num;
}
void WrXErrorPos(tErrorNum Num, char const* pExtError, const struct sLineComp* pLineComp) {
    (void)pExtError;
    (void)pLineComp;
    g_err_cnt++;
    g_err_last = (int)Num;
}
void WrStrErrorPos(tErrorNum Num, const struct sStrComp* pStrComp) {
    (void)pStrComp;
    g_err_cnt++;
    g_err_last = (int)Num;
}

/* errmsg.c: argument count check; same truth value as the real one, reports by counting */
Boolean ChkArgCntExtPos(int ThisCnt, int MinCnt, int MaxCnt, const struct sLineComp* pComp) {
    (void)pComp;
    if ((ThisCnt < MinCnt) || (ThisCnt > MaxCnt)) {
        g_err_cnt++;
        g_err_last = (int)ErrNum_WrongArgCnt;
        return False;
    }
    return True;
}
