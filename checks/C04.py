"""C04 -- the code file contains exactly the program's bytes at the program's addresses (asmcode.c)"""
from vdriver import G
LEVEL = "proof"
SRC = "harness/C04/h_asmcode.c"
LINK = ["asmdef.c", "as_endian.c", "bpemu.c", "tempresult.c"]
STUBS = ["stubs/gerr.c"]
GROUPS = []
def g(entry, fns, **kw):
    GROUPS.append(G("cf_" + entry, SRC, "h_" + entry, enforce=kw.pop("enforce", []), replace=kw.pop("replace", []), dfcc=kw.pop("dfcc", False), link=LINK, stubs=STUBS,
                    unwind=kw.pop("unwind", 14), timeout=kw.pop("timeout", 900), functions=fns, object_bits=kw.pop("object_bits", 10), **kw))
for gran in (1, 2, 4):
    for e in ("WriteBytes_fit_new", "WriteBytes_fit_old", "WriteBytes_fit_hdr"):
        g(e, ["WriteBytes"], defs=["-DVERIF_GRAN=%d" % gran], tier="quick" if (gran == 2 or e.endswith("new")) else "thorough")
        GROUPS[-1]["name"] = "cf_%s_g%d" % (e, gran)
TRUSTED_BASE = ["stubs/gfile.c ghost stdio model (witness byte)", "Granularity()/ProgCounter() oracles", "ChkIO: a failed write ends the run"]
ASSUMPTIONS = ["no relocatable segments (PatchList == ExportList == NULL)", "CodeLen * granularity <= 65535 (16-bit ErgLen)"]
NOT_COVERED = []
EXPLANATION = ""
