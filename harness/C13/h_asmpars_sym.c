/* C13 / C01 harness: symbol-table kernels of the real /repo/asmpars.c */
#include "verif.h"
#include <stdio.h>
#include <stdlib.h>
#include <string.h>
#include "stdinc.h"
#include "asmdef.h"
#include "asmsub.h"
#include "asmpars.h"
#include "asmfnums.h"
#include "nlmessages.h"
#include "strutil.h"
#include "asmrelocs.h"
#include "stubs/gerr.h"
#include "trees.h"
#include "nls.h"

static char msg_txt[2];
char*       getmessage(int Num) { (void)Num; return msg_txt; }
char const* GetFileName(int Num) { (void)Num; return msg_txt; }
Integer     GetFileNum(char* Name) { (void)Name; return 1; }
#ifndef VERIF_LINK_STRUTIL /* groups that link the real strutil.c use its definitions */
size_t      strmaxcpy(char* dest, char const* src, size_t Max) { /* faithful: copies up to Max-1 characters */
    size_t n = 0;
    if (!Max) return 0;
    while (src[n] && n + 1 < Max) { dest[n] = src[n]; n++; }
    dest[n] = 0;
    return n;
}
size_t      strmaxcat(char* Dest, char const* Src, size_t MaxLen) { /* faithful */
    size_t d = 0, n = 0;
    while (d < MaxLen && Dest[d]) d++;               /* the destination is a string inside its buffer (else the caller already went wrong) */
    if (d >= MaxLen) return 0;
    while (Src[n] && d + 1 < MaxLen) { Dest[d++] = Src[n++]; }
    Dest[d] = 0;
    return n;
}
#endif
#include "strcomp.h"
void StrCompRefRight(tStrComp* pDest, tStrComp const* pSrc, size_t StartOffs) {
    pDest->str.p_str = pSrc->str.p_str + StartOffs; pDest->str.capacity = pSrc->str.capacity - StartOffs; pDest->str.dynamic = 0;
    pDest->Pos = pSrc->Pos;
}
void        FreeRelocs(PRelocEntry* Relocs) { *Relocs = NULL; }
PRelocEntry DupRelocs(PRelocEntry src) { (void)src; return NULL; }
static unsigned long long g_epc;
LargeWord   EProgCounter(void) { return (LargeWord)g_epc; }
/* name syntax check: the reference is the plain valid name "AB" */
char*       ChkSymbNameUpTo(char const* pSym, char const* pUpTo) { (void)pSym; return (char*)pUpTo; }
static int mon0(void) { return 0; }
#define as_snprcatf(...) mon0()
#ifdef VERIF_TMPSYM
/* name monitor for the nameless temporary symbols: which internal name ("__back<n>" / "__forw<n>") was generated */
#include <stdarg.h>
static int  g_tn_kind, g_tn_calls; /* 1 = back, 2 = forw, 9 = anything else */
static long g_tn_num;
static int mon_tmpname(char* d, size_t n, char const* fmt, ...) {
    va_list ap;
    va_start(ap, fmt);
    if (!strcmp(fmt, "__back%d")) { g_tn_kind = 1; g_tn_num = va_arg(ap, int); }
    else if (!strcmp(fmt, "__forw%d")) { g_tn_kind = 2; g_tn_num = va_arg(ap, int); }
    else if (!strcmp(fmt, "__%s%d")) {
        char const* k = va_arg(ap, char const*);
        g_tn_kind = !strcmp(k, "back") ? 1 : !strcmp(k, "forw") ? 2 : 9;
        g_tn_num = va_arg(ap, int);
    } else g_tn_kind = 9;
    va_end(ap);
    g_tn_calls++;
    if (n > 1) { d[0] = '_'; d[1] = 0; }
    return 1;
}
#define as_snprintf mon_tmpname
/* SHA-1 stand-in for the named ($$) temporary symbols: the "digest" is the first character and the length of the hashed
 * text, the hex string is 'h' + those two - a function of the hashed text only, which is all the property needs */
#include "sha1.h"
void SHA1Init(SHA1_CTX* c) { c->count[0] = 0; c->count[1] = 0; }
void SHA1Update(SHA1_CTX* c, unsigned char const* data, Card32 len) { c->count[0] = len ? data[0] : 0; c->count[1] = len; }
void SHA1Final(unsigned char digest[20], SHA1_CTX* c) { digest[0] = (unsigned char)c->count[0]; digest[1] = (unsigned char)c->count[1]; }
void SHA1ToHexString(unsigned char digest[20], char* hexstring) { hexstring[0] = 'h'; hexstring[1] = (char)(digest[0] ? digest[0] : '0'); hexstring[2] = (char)('0' + (digest[1] & 7)); hexstring[3] = 0; }
/* strmaxprep2 by its contract (verified on the real strutil.c in str_strmaxprep2): fitting prefix of src, then fitting prefix of dest */
void strmaxprep2(char* d, char const* s, size_t max) {
    char tmp[24]; size_t sl = 0, dl = 0, i;
    while (sl < 12 && s[sl]) sl++; while (dl < 12 && d[dl]) dl++;
    if (sl > max - 1) sl = max - 1; if (dl > max - 1 - sl) dl = max - 1 - sl;
    for (i = 0; i < dl; i++) tmp[i] = d[i];
    for (i = 0; i < sl; i++) d[i] = s[i];
    for (i = 0; i < dl; i++) d[sl + i] = tmp[i];
    d[sl + dl] = 0;
}
/* memmove with a symbolic length: CBMC's library model (variable-length array + array_replace) lost the moved bytes here
 * (spurious failure, the native replay passes); a bounded byte loop through a temporary with the same range obligations */
static void* verif_memmove(void* d, void const* s, size_t n) {
    char tmp[48]; size_t i;
    VASSERT(n == 0 || (__CPROVER_w_ok(d, n) && __CPROVER_r_ok(s, n)), "C03: memmove stays inside source and destination objects");
    VASSERT(n <= 48, "harness: memmove monitor capacity");
    for (i = 0; i < n && i < 48; i++) tmp[i] = ((char const*)s)[i];
    for (i = 0; i < n && i < 48; i++) ((char*)d)[i] = tmp[i];
    return d;
}
#define memmove(d, s, n) verif_memmove((d), (s), (n))
#else
#define as_snprintf(...) mon0()
#endif
#define printf(...) mon0()
#define fprintf(...) mon0()
#ifdef VERIF_EXPAND
/* memcpy with a symbolic length: CBMC's model is intractable here; a bounded byte loop with the same range obligations */
static void* verif_memcpy(void* d, void const* s, size_t n) {
    size_t i;
    VASSERT(n == 0 || (__CPROVER_w_ok(d, n) && __CPROVER_r_ok(s, n)), "C03: memcpy stays inside source and destination objects");
    for (i = 0; i < n && i < 40; i++) ((char*)d)[i] = ((char const*)s)[i];
    return d;
}
#define memcpy(d, s, n) verif_memcpy((d), (s), (n))
#endif
#include "contracts/loop_defaults.h"
#include "asmpars.c" /* the real /repo/asmpars.c */
#ifdef VERIF_EXPAND
#undef memcpy
#endif
#ifdef VERIF_TMPSYM
#undef memmove
#endif
#undef as_snprcatf
#undef as_snprintf

/* symbol-tree oracle: which section handles hold an entry of the searched name.  Handles
 * 10, 11, 12 are the current section, its parent and its grandparent; -1 is global. */
static TSymbolEntry g_node[4];          /* entries at handles 10, 11, 12, -1 */
static int          g_present[4];
static int          g_search_calls;
static int hidx(LongInt h) { return h == 10 ? 0 : h == 11 ? 1 : h == 12 ? 2 : h == -1 ? 3 : -1; }
PTree SearchTree(PTree Tree, char* Name, LongInt Attribute) {
    int i = hidx(Attribute);
    (void)Tree; (void)Name;
    g_search_calls++;
    return (i >= 0 && g_present[i]) ? &g_node[i].Tree : NULL;
}
void NLS_UpString(char* s) { (void)s; }

static PSymbolEntry mk_entry(void) {
    PSymbolEntry e = calloc(1, sizeof(TSymbolEntry));
    int t;
    VASSUME(e != NULL);
    e->Tree.Name = malloc(2);
    VASSUME(e->Tree.Name != NULL);
    e->Tree.Name[0] = 'L'; e->Tree.Name[1] = 0;
    e->Tree.Attribute = -1;
    VND(e->Defined, uchar); VND(e->Used, uchar); VND(e->Changeable, uchar);
    VASSUME(e->Defined <= 1 && e->Used <= 1 && e->Changeable <= 1);
    as_tempres_ini(&e->SymWert);
    VND(t, int); VASSUME(t == TempInt || t == TempFloat);
    e->SymWert.Typ = (TempType)t;
    VND(e->SymWert.Contents.Int, i64);
    VASSUME(t != TempFloat || e->SymWert.Contents.Float == e->SymWert.Contents.Float); /* no NaN constants */
    e->RefList = NULL;
    VND(e->LineNum, int); VND(e->FileNum, uchar);
    return e;
}
static int same_value(PSymbolEntry a, TempType t, long long i, double f) {
    return a->SymWert.Typ == t && ((t == TempInt && a->SymWert.Contents.Int == i) || (t == TempFloat && a->SymWert.Contents.Float == f));
}

/* SymbolAdder: what happens when a definition meets the table */
void h_SymbolAdder(void) {
    PSymbolEntry neu, old, node; TEnterStruct es; Boolean r, has_old, rp0, o_def, o_chg, o_used; unsigned long ec, errc0; LongInt j0;
    TempType ot = TempNone; long long oi = 0; double of = 0; int same = 0;
    msg_txt[0] = 'm'; msg_txt[1] = 0;
    { static char serr_buf[STRINGSIZE]; serr = serr_buf; }
    neu = mk_entry();
    VND(has_old, uchar);
    VND(es.MayChange, uchar); VND(es.DoCross, uchar); VASSUME(es.MayChange <= 1 && es.DoCross <= 1);
    VND(Repass, uchar); VASSUME(Repass <= 1);
    VND(JmpErrors, short); VND(ThrowErrors, uchar); VND(ErrorCount, uint); VND(MsgIfRepass, uchar); VND(PassNo, int); VND(PassNoForMessage, int);
    /* C02's invariant: no more jump errors set aside than errors counted */
    VASSUME(JmpErrors >= 0 && (unsigned long)JmpErrors <= ErrorCount);
    CurrFileName = msg_txt; VND(CurrLine, int);
    VND(g_err_cnt, ulong); VASSUME(g_err_cnt < 1000000);
    ec = g_err_cnt; rp0 = Repass; errc0 = ErrorCount; j0 = JmpErrors;
    if (has_old & 1) {
        old = mk_entry(); node = old;
        o_def = old->Defined; o_chg = old->Changeable; o_used = old->Used;
        ot = old->SymWert.Typ; oi = old->SymWert.Contents.Int; of = old->SymWert.Contents.Float;
        same = same_value(neu, ot, oi, of);
        r = SymbolAdder((PTree*)&node, &neu->Tree, &es);
        if (o_def && !o_chg && !es.MayChange) {
            VPOST(!r && g_err_cnt == ec + 1 && g_err_last == ErrNum_DoubleDef, "C13: defining a constant twice is an error");
            VPOST(node == old && same_value(old, ot, oi, of) && old->Defined && !old->Changeable, "C13: an EQU constant keeps its value");
            VPOST(Repass == rp0, "C01: a rejected definition does not request another pass");
            VREACH("doubledef");
        } else if (o_def && (es.MayChange != o_chg)) {
            VPOST(!r && g_err_cnt == ec + 1 && (g_err_last == ErrNum_VariableRedefinedAsConstant || g_err_last == ErrNum_ConstantRedefinedAsVariable),
                  "C13: a constant cannot become a variable nor the other way round");
            VPOST(node == old && same_value(old, ot, oi, of), "C13: the existing symbol keeps its value");
            VREACH("kindchange");
        } else {
            VPOST(r && neu->Defined && (neu->Changeable != 0) == (es.MayChange != 0) && neu->Used == o_used, "C13: the new definition takes over, usage flag carried");
            VPOST(rp0 ? Repass : 1, "C01: a pending pass request is never withdrawn");
            VPOST(es.MayChange || same || Repass, "C01: a constant whose value differs from the previous pass requests another pass");
            VPOST(!(es.MayChange || same) || Repass == rp0, "C01: an unchanged constant / a variable does not request a pass");
            /* jump errors set aside while the pass still looked final are taken back exactly once */
            VPOST(ErrorCount == errc0 || (ErrorCount == errc0 - (unsigned long)j0 && !rp0 && Repass && ThrowErrors && JmpErrors == 0),
                  "C02: only errors that were set aside as jump-distance errors are taken back");
            VREACH("replace");
        }
    } else {
        r = SymbolAdder(NULL, &neu->Tree, &es);
        VPOST(r && neu->Defined && !neu->Used && (neu->Changeable != 0) == (es.MayChange != 0) && neu->RefList == NULL, "C13: a new symbol is defined, unused, constant or variable as requested");
        VPOST(Repass == rp0 && g_err_cnt == ec, "C01: a first definition neither requests a pass nor reports");
        VREACH("new");
    }
}

/* FindNode: an unqualified name resolves innermost section first, then outward to global;
 * an entry of the wrong kind does not hide an outer one; a FORWARD-declared name resolves
 * in the current section only (during the early passes) */
void h_FindNode(void) {
    static TSaveSection st[3]; static TForwardSymbol fw; static char fwname[3]; static char nm[3];
    PSymbolEntry r; int i, depth, want, exp = -1; Boolean fwd;
    msg_txt[0] = 'm'; msg_txt[1] = 0;
    nm[0] = 'A'; nm[1] = 'B'; nm[2] = 0;
    for (i = 0; i < 4; i++) { int t; VND(g_present[i], int); VND(t, int); VASSUME(t == TempInt || t == TempFloat || t == TempString); g_node[i].SymWert.Typ = (TempType)t; }
    VND(depth, int); VASSUME(depth >= 0 && depth <= 2);
    /* section stack: current section 10 inside 11 inside 12 (depth 2), or fewer */
    MomSectionHandle = depth == 0 ? -1 : 10;
    st[0].Handle = depth == 2 ? 11 : -1; st[0].Next = depth == 2 ? &st[1] : NULL; st[0].LocSyms = NULL;
    st[1].Handle = -1; st[1].Next = NULL; st[1].LocSyms = NULL;
    SectionStack = depth == 0 ? NULL : &st[0];
    if (depth == 2) { st[0].Handle = 11; st[1].Handle = -1; }
    /* the chain of handles searched: depth 0: -1;  depth 1: 10, -1;  depth 2: 10, 11, -1 */
    VND(fwd, uchar);
    fwname[0] = 'A'; fwname[1] = 'B'; fwname[2] = 0; fw.Name = fwname; fw.Next = NULL;
    if ((fwd & 1) && depth > 0) st[0].LocSyms = &fw;
    VND(PassNo, int); VND(MaxSymPass, int);
    CaseSensitive = True; MakeCrossList = False;
    VND(want, int); VASSUME(want == TempInt || want == TempFloat || want == TempString || want == (TempInt | TempFloat | TempString));
    g_search_calls = 0;
    r = FindNode(nm, (TempType)want);
    /* expected */
    if ((fwd & 1) && depth > 0 && PassNo <= MaxSymPass) {
        if (g_present[0] && (g_node[0].SymWert.Typ & want)) exp = 0;
    } else {
        int chain[3], n = 0;
        if (depth >= 1) chain[n++] = 0;
        if (depth == 2) chain[n++] = 1;
        chain[n++] = 3;
        for (i = 0; i < n && exp < 0; i++) if (g_present[chain[i]] && (g_node[chain[i]].SymWert.Typ & want)) exp = chain[i];
    }
    VPOST(exp < 0 ? r == NULL : r == &g_node[exp], "C13: a name resolves in the innermost enclosing section that defines it (kind permitting), then outward to global; FORWARD names stay local");
    VREACH("end");
}

/* LookupSymbol: what a reference to a symbol yields (the per-reference facts of C01) */
void h_LookupSymbol(void) {
    static tStrComp comp; static char nm[3]; TempResult v; Boolean rp0, defd; unsigned long ec; int i, want;
    msg_txt[0] = 'm'; msg_txt[1] = 0;
    nm[0] = 'A'; nm[1] = 'B'; nm[2] = 0; comp.str.p_str = nm; comp.str.capacity = 3;
    for (i = 0; i < 4; i++) g_present[i] = 0;
    VND(g_present[3], int);                       /* defined globally or not at all */
    g_node[3].SymWert.Typ = TempInt; VND(g_node[3].SymWert.Contents.Int, i64); VND(g_node[3].SymWert.Flags, uint);
    g_node[3].SymWert.AddrSpaceMask = 0; g_node[3].SymWert.DataSize = eSymbolSizeUnknown; g_node[3].SymWert.Relocs = NULL;
    VND(g_node[3].Defined, uchar); VND(g_node[3].Used, uchar); VASSUME(g_node[3].Defined <= 1 && g_node[3].Used <= 1);
    MomSectionHandle = -1; SectionStack = NULL; MomLocHandle = -1; CaseSensitive = True; MakeCrossList = False;
    VND(PassNo, int); VND(MaxSymPass, int); VND(Repass, uchar); VASSUME(Repass <= 1);
    VND(MsgIfRepass, uchar); VND(PassNoForMessage, int); VND(g_epc, u64);
    VND(g_err_cnt, ulong); VASSUME(g_err_cnt < 1000000);
    as_tempres_ini(&v);
    want = TempAll; rp0 = Repass; ec = g_err_cnt; defd = g_node[3].Defined;
    LookupSymbol(&comp, &v, False, (TempType)want);
    if (g_present[3]) {
        VPOST(v.Typ == TempInt && v.Contents.Int == g_node[3].SymWert.Contents.Int, "C01: a reference reads the value stored for the symbol");
        VPOST(g_node[3].Used, "C13: a referenced symbol is marked used");
        VPOST(defd || (v.Flags & eSymbolFlag_UsesForwards), "C01: a value carried over from the previous pass is flagged as forward reference");
        VPOST(defd || !rp0 || (v.Flags & eSymbolFlag_Questionable), "C01: ... and as questionable once another pass is certain");
        VPOST(Repass == rp0 && g_err_cnt == ec, "C01: a resolved reference neither requests a pass nor reports");
        VREACH("found");
    } else if (PassNo <= MaxSymPass) {
        VPOST(Repass && (v.Flags & eSymbolFlag_FirstPassUnknown) && v.Typ == TempInt && (LargeWord)v.Contents.Int == g_epc,
              "C01: an unknown symbol in an early pass yields the program counter, is flagged and requests another pass");
        VREACH("unknown-early");
    } else {
        VPOST(g_err_cnt == ec + 1 && g_err_last == ErrNum_SymbolUndef && Repass == rp0, "C01: an unknown symbol in a later pass is an error (never silently 0)");
        VREACH("undefined");
    }
}

/* IdentifySection: the section qualifier of name[section] references and of PUBLIC/GLOBAL name:section.
 * "" is global, PARENT0 the current section, PARENT/PARENT1 its parent, PARENTn the n-th ancestor (an error beyond
 * global), a plain name the enclosing section of that name.  ExpandStrSymbol ({..} expansion) is replaced by a copy
 * (goto-instrument --replace-calls); the section-name list and the section stack are real data. */
Boolean verif_ExpandStrSymbol(char* pDest, size_t DestSize, tStrComp const* pSrc) {
    size_t i;
    for (i = 0; i + 1 < DestSize && i < 8 && pSrc->str.p_str[i]; i++) pDest[i] = pSrc->str.p_str[i];
    pDest[i] = 0;
    return True;
}
void h_IdentifySection(void) {
    static TSaveSection st[5]; static TCToken sec[5]; static char secname[5][3]; static tStrComp comp; static char nm[9];
    int d, i, kind, n, j; LongInt erg; Boolean ok; unsigned long ec; long long exp;
    msg_txt[0] = 'm'; msg_txt[1] = 0;
    for (i = 0; i < 5; i++) { secname[i][0] = 'S'; secname[i][1] = (char)('0' + i); secname[i][2] = 0; sec[i].Name = secname[i]; sec[i].Next = i < 4 ? &sec[i + 1] : NULL; }
    FirstSection = &sec[0];
    VND(d, int); VASSUME(d >= 0 && d <= 5);          /* nesting depth: sections S0 (outermost) .. S(d-1) (current) */
    MomSectionHandle = d - 1;
    for (i = 0; i < 5; i++) { st[i].Handle = d - 2 - i; st[i].Next = (i + 1 < d) ? &st[i + 1] : NULL; st[i].LocSyms = NULL; }
    SectionStack = d > 0 ? &st[0] : NULL;            /* handles d-2, d-3, ..., 0, -1 */
    CaseSensitive = True;
    VND(kind, int); VASSUME(kind >= 0 && kind <= 3); VND(n, int); VASSUME(n >= 0 && n <= 9); VND(j, int); VASSUME(j >= 0 && j <= 4);
    if (kind == 0) nm[0] = 0;                                                        /* name[] */
    else if (kind == 3) { nm[0] = 'S'; nm[1] = (char)('0' + j); nm[2] = 0; }         /* name[Sj] */
    else { nm[0] = 'P'; nm[1] = 'A'; nm[2] = 'R'; nm[3] = 'E'; nm[4] = 'N'; nm[5] = 'T'; nm[6] = (kind == 1) ? 0 : (char)('0' + n); nm[7] = 0; if (kind == 1) n = 1; }
    comp.str.p_str = nm; comp.str.capacity = 9;
    VND(g_err_cnt, ulong); VASSUME(g_err_cnt < 1000000); ec = g_err_cnt;
    erg = 12345;
    ok = IdentifySection(&comp, &erg);
    if (kind == 0) exp = -1;
    else if (kind == 3) exp = (j <= d - 1) ? j : -2;           /* the current section or one of its ancestors */
    else exp = (n == 0) ? d - 1 : (n <= d) ? ((n < d) ? d - 1 - n : -1) : -2;
    if (exp == -2) {
        VPOST(!ok && g_err_cnt == ec + 1 && g_err_last == ErrNum_InvSection, "C13: a qualifier naming no enclosing section (or an ancestor beyond global) is an error");
        VREACH("nosection");
    } else {
        VPOST(ok && erg == exp && g_err_cnt == ec, "C13: name[] is global, PARENTn the n-th enclosing section (PARENT0 the current one), a section name that enclosing section");
        VREACH("end");
    }
}

/* ExpandStrSymbol: names with a {string expression} part (labels, IFDEF, SECTION, PUBLIC ... all pass through it).
 * Whatever the length of the text in front of the '{', the expansion stays inside the caller's buffer (C03: no write outside
 * allocations); the literal text is copied as far as it fits.  Bounded: buffer of 16 bytes, text of up to 24 characters. */
#ifdef VERIF_EXPAND
/* strcomp.c helpers used by ExpandStrSymbol, faithful for non-dynamic components */
void StrCompMkTemp(tStrComp* pComp, char* pStr, size_t capacity) { pComp->str.p_str = pStr; pComp->str.capacity = capacity; pComp->str.dynamic = 0; pComp->Pos.StartCol = 0; pComp->Pos.Len = 0; }
void StrCompCopySub(tStrComp* pDest, tStrComp const* pSrc, size_t Start, size_t Count) {
    size_t l = 0, i; while (l < 40 && pSrc->str.p_str[l]) l++;
    if (Start >= l) Count = 0; else if (Start + Count > l) Count = l - Start;
    if (Count >= pDest->str.capacity) Count = pDest->str.capacity - 1;
    for (i = 0; i < Count && i < 40; i++) pDest->str.p_str[i] = pSrc->str.p_str[Start + i];
    pDest->str.p_str[Count] = 0;
}
void StrCompIncRefLeft(tStrComp* pComp, size_t Amount) { pComp->str.p_str += Amount; if (pComp->str.capacity > Amount) pComp->str.capacity -= Amount; }
char* QuotPosQualify(char const* s, char Zeichen, tQualifyQuoteFnc QualifyQuoteFnc) { int i; (void)QualifyQuoteFnc; for (i = 0; i < 40 && s[i]; i++) if (s[i] == Zeichen) return (char*)s + i; return NULL; }
void verif_EvalStrStringExpressionWithResult(const struct sStrComp* pExpr, struct sEvalResult* pResult, char* pEvalResult) {
    (void)pExpr; pResult->OK = True; pResult->Flags = eSymbolFlag_None; pEvalResult[0] = 'r'; pEvalResult[1] = 's'; pEvalResult[2] = 0;
}
void UpString(char* s) { (void)s; }
void h_ExpandStrSymbol(void) {
    static tStrComp comp; static char src[40]; char* dest; unsigned n, i, dsz = 16; Boolean r;
    VND(n, uint); VASSUME(n <= 24);
    for (i = 0; i < 24; i++) src[i] = 'a';
    src[n] = '{'; src[n + 1] = 'x'; src[n + 2] = '}'; src[n + 3] = 'b'; src[n + 4] = 0;       /* aaa...a{x}b */
    comp.str.p_str = src; comp.str.capacity = 40; comp.str.dynamic = 0;
    dest = malloc(dsz); VASSUME(dest != NULL);
    CaseSensitive = True;
    r = ExpandStrSymbol(dest, dsz, &comp);
    VPOST(r, "C13: a name with a string expression expands");
    { unsigned l = 0; int nul = 0; for (i = 0; i < 16; i++) if (!nul) { if (dest[i] == 0) nul = 1; else l++; }
      VPOST(nul && l <= dsz - 1, "C03: the expanded name is NUL-terminated inside the caller's buffer");
      VPOST(n + 3 > dsz - 1 || (l == n + 3 && dest[n] == 'r' && dest[n + 1] == 's' && dest[n + 2] == 'b'), "C13: literal text and the expression's value are concatenated in order when they fit"); }
    VREACH("end");
}
#endif

/* PUSHV / POPV: POPV gives a symbol the value the matching PUSHV saved (last in, first out per stack), whatever the symbol
 * was set to in between; POPV from an empty stack is an error that changes nothing. */
#ifdef VERIF_PUSHV
Boolean ChkSymbName(char const* pSym) { (void)pSym; return True; }
char* as_strdup(char const* s) { char* d = malloc(16); int i; VASSUME(d != NULL); for (i = 0; i < 15 && s[i]; i++) d[i] = s[i]; d[i] = 0; return d; }
void h_PUSHV_POPV(void) {
    static tStrComp sym, stk; static char nm[3], st[2]; long long v1, v2, v3; unsigned long ec; Boolean r;
    msg_txt[0] = 'm'; msg_txt[1] = 0;
    nm[0] = 'A'; nm[1] = 'B'; nm[2] = 0; sym.str.p_str = nm; sym.str.capacity = 3; st[0] = 0; stk.str.p_str = st; stk.str.capacity = 2;   /* default stack */
    g_present[0] = g_present[1] = g_present[2] = 0; g_present[3] = 1;
    g_node[3].SymWert.Typ = TempInt; g_node[3].SymWert.Relocs = NULL; g_node[3].SymWert.Flags = eSymbolFlag_None;
    MomSectionHandle = -1; SectionStack = NULL; MomLocHandle = -1; CaseSensitive = True; MakeCrossList = False; FirstStack = NULL;
    VND(PassNo, int); VND(MaxSymPass, int);
    VND(v1, i64); VND(v2, i64); VND(v3, i64); VND(g_err_cnt, ulong); VASSUME(g_err_cnt < 1000000); ec = g_err_cnt;
    g_node[3].SymWert.Contents.Int = v1; r = PushSymbol(&sym, &stk);
    VPOST(r && FirstStack != NULL, "C13: PUSHV saves the symbol's value");
    g_node[3].SymWert.Contents.Int = v2; r = PushSymbol(&sym, &stk);
    g_node[3].SymWert.Contents.Int = v3;
    r = PopSymbol(&sym, &stk);
    VPOST(r && g_node[3].SymWert.Typ == TempInt && g_node[3].SymWert.Contents.Int == v2, "C13: POPV restores the value saved by the most recent PUSHV");
    r = PopSymbol(&sym, &stk);
    VPOST(r && g_node[3].SymWert.Contents.Int == v1 && FirstStack == NULL, "C13: ... then the one before it (last in, first out); the emptied stack disappears");
    VPOST(g_err_cnt == ec, "C13: balanced PUSHV/POPV report nothing");
    r = PopSymbol(&sym, &stk);
    VPOST(!r && g_err_cnt == ec + 1 && g_err_last == ErrNum_StackEmpty && g_node[3].SymWert.Contents.Int == v1, "C13: POPV from an empty stack is an error and leaves the symbol alone");
    VREACH("end");
}
#endif

/* ---- range check of expression results (C14 / C09: "rejected instead of truncated") ------------
 * The formula parser is replaced by an oracle (goto-instrument --replace-calls
 * EvalStrExpression:verif_EvalStrExpression): it returns an arbitrary integer with arbitrary flags. */
static long long g_ev_int; static unsigned g_ev_flags; static int g_ev_typ;
void verif_EvalStrExpression(tStrComp const* pExpr, TempResult* pErg) {
    (void)pExpr;
    pErg->Flags = (tSymbolFlags)g_ev_flags; pErg->AddrSpaceMask = 0; pErg->DataSize = eSymbolSizeUnknown; pErg->Relocs = NULL;
    if (g_ev_typ == TempInt) { pErg->Typ = TempInt; pErg->Contents.Int = g_ev_int; }
    else if (g_ev_typ == TempFloat) { pErg->Typ = TempFloat; pErg->Contents.Float = 1.5; }
    else pErg->Typ = TempNone;
}
void SetRelocs(PRelocEntry List) { (void)List; }

/* the table of integer types as asmpars_init builds it, against the definition of the types */
static long long spec_min(int t) { unsigned sw = IntTypeDefs[t].SignAndWidth, n = sw & 0xff, cls = (sw >> 8) & 0xc0;
    return (cls == 0x00) ? 0 : -(long long)(1ull << (n - 1)); }
static unsigned long long spec_max(int t) { unsigned sw = IntTypeDefs[t].SignAndWidth, n = sw & 0xff, cls = (sw >> 8) & 0xc0;
    return (cls == 0x80) ? (1ull << (n - 1)) - 1 : (n >= 64 ? ~0ull : (1ull << n) - 1); }

void h_IntTypeDefs(void) {
    int t;
    asmpars_init();
    VND(t, int); VASSUME(t >= 0 && t < (int)SInt64);
    VPOST(IntTypeDefs[t].Min == spec_min(t) && (unsigned long long)IntTypeDefs[t].Max == spec_max(t),
          "C09: every integer type below 64 bits accepts exactly [-2^(n-1), 2^(n-1)-1] (signed), [0, 2^n-1] (unsigned) or [-2^(n-1), 2^n-1] (either)");
    VPOST(IntTypeDefs[t].Mask == spec_max(t), "C09: the mask of a type is its largest value");
    VREACH("end");
}

void h_EvalStrInt_range(void) {
    static tStrComp comp; static char nm[2]; tEvalResult er; LargeInt r; int t; unsigned long ec;
    asmpars_init();
    nm[0] = 'x'; nm[1] = 0; comp.str.p_str = nm;
    VND(t, int); VASSUME(t >= 0 && t < (int)SInt64);
    VND(g_ev_int, i64); VND(g_ev_flags, uint); g_ev_typ = TempInt;
    VND(HardRanges, uchar); VASSUME(HardRanges <= 1);
    VND(g_err_cnt, ulong); VASSUME(g_err_cnt < 1000000);
    LastRelocs = NULL;
    ec = g_err_cnt;
    r = EvalStrIntExpressionWithResult(&comp, (IntType)t, &er);
    if (!(g_ev_flags & eSymbolFlag_FirstPassUnknown)) {
        if (g_ev_int >= spec_min(t) && (g_ev_int < 0 || (unsigned long long)g_ev_int <= spec_max(t))) {
            VPOST(er.OK && r == g_ev_int && g_err_cnt == ec, "C14: a value that fits its field is passed on unchanged");
            VREACH("fits");
        } else if (HardRanges) {
            VPOST(!er.OK && r == -1 && g_err_cnt == ec + 1 && g_err_last == ErrNum_OverRange, "C14: a value outside its field is rejected with an error instead of being truncated");
            VREACH("rejected");
        } else {
            VPOST(er.OK && g_err_cnt == ec + 1 && g_err_last == ErrNum_WOverRange, "C14: with relaxed ranges the truncation is at least reported as a warning");
            VREACH("relaxed");
        }
    } else {
        VPOST(!er.OK || ((unsigned long long)r & ~IntTypeDefs[t].Mask) == 0 || r == g_ev_int, "C14: a first-pass placeholder is masked to the field, never rejected for its size alone");
        VREACH("unknown");
    }
}

#ifdef VERIF_TMPSYM
/* Nameless temporary symbols (manual, "Nameless Temporary Symbols"): a label '-' or '/' becomes the most recent "minus symbol",
 * '-', '--', '---' name the three last of them; a label '+' or '/' is the next "plus symbol", '+', '++', '+++' name the next three.
 * State: the counters and the log of the last three minus symbols, arbitrary within the representation invariant.  Names of
 * 0..5 characters over { '-', '+', '/', ' ', 'a' } with leading/trailing blanks. */
void h_ChkTmp2(void) {
    char name[8], out[STRINGSIZE];
    int src, i, b, e, k, cls; /* cls: 1 all '-', 2 all '+', 3 single '/', 0 other */
    LongInt F0, B0, D0; TTmpSymLog L0[LOCSYMSIGHT];
    Boolean r;
    VND_BYTES(name, 8); name[5] = 0;
    for (i = 0; i < 5; i++) VASSUME(name[i] == '-' || name[i] == '+' || name[i] == '/' || name[i] == ' ' || name[i] == 'a' || name[i] == 0);
    VND(src, int); VASSUME(src == e_symbol_source_none || src == e_symbol_source_label || src == e_symbol_source_define);
    VND(FwdSymCounter, int); VND(BackSymCounter, int); VND(TmpSymLogDepth, int);
    VASSUME(FwdSymCounter >= 0 && FwdSymCounter < 0x7ffffff0 && BackSymCounter >= 0 && BackSymCounter < 0x7ffffff0 && TmpSymLogDepth >= 0 && TmpSymLogDepth <= LOCSYMSIGHT);
    for (i = 0; i < LOCSYMSIGHT; i++) { VND(TmpSymLog[i].Back, uchar); VND(TmpSymLog[i].Counter, int); VASSUME(TmpSymLog[i].Back <= 1); L0[i] = TmpSymLog[i]; }
    F0 = FwdSymCounter; B0 = BackSymCounter; D0 = TmpSymLogDepth;
    /* specification side: trim blanks, classify */
    for (e = 0; e < 5 && name[e]; e++) ;
    for (b = 0; b < e && name[b] == ' '; b++) ;
    for (; e > b && name[e - 1] == ' '; e--) ;
    k = e - b; cls = 0;
    if (k >= 1) {
        int all_m = 1, all_p = 1;
        for (i = b; i < e; i++) { if (name[i] != '-') all_m = 0; if (name[i] != '+') all_p = 0; }
        cls = all_m ? 1 : all_p ? 2 : (k == 1 && name[b] == '/') ? 3 : 0;
    }
    g_tn_kind = 0; g_tn_calls = 0; g_tn_num = -1;
    out[0] = 0;
    r = ChkTmp2(out, name, (as_symbol_source_t)src);
    if (src != e_symbol_source_none && k == 1 && cls == 1) {
        VPOST(r && g_tn_kind == 1 && g_tn_num == B0 && BackSymCounter == B0 + 1 && FwdSymCounter == F0, "C13: label '-' defines a fresh minus symbol");
        VPOST(TmpSymLogDepth == (D0 < LOCSYMSIGHT ? D0 + 1 : LOCSYMSIGHT) && TmpSymLog[0].Back && TmpSymLog[0].Counter == B0 &&
              (D0 < 1 || (TmpSymLog[1].Back == L0[0].Back && TmpSymLog[1].Counter == L0[0].Counter)) &&
              (D0 < 2 || (TmpSymLog[2].Back == L0[1].Back && TmpSymLog[2].Counter == L0[1].Counter)),
              "C13: the new minus symbol becomes '-', the former '-' becomes '--', the former '--' becomes '---'");
        VREACH("def minus");
    } else if (src != e_symbol_source_none && cls == 3) {
        VPOST(r && g_tn_kind == 2 && g_tn_num == F0 && FwdSymCounter == F0 + 1 && BackSymCounter == B0, "C13: label '/' is the next plus symbol");
        VPOST(TmpSymLogDepth == (D0 < LOCSYMSIGHT ? D0 + 1 : LOCSYMSIGHT) && !TmpSymLog[0].Back && TmpSymLog[0].Counter == F0 &&
              (D0 < 1 || (TmpSymLog[1].Back == L0[0].Back && TmpSymLog[1].Counter == L0[0].Counter)) &&
              (D0 < 2 || (TmpSymLog[2].Back == L0[1].Back && TmpSymLog[2].Counter == L0[1].Counter)),
              "C13: label '/' is also the most recent minus symbol");
        VREACH("def slash");
    } else if (src != e_symbol_source_none && k == 1 && cls == 2) {
        VPOST(r && g_tn_kind == 2 && g_tn_num == F0 && FwdSymCounter == F0 + 1 && BackSymCounter == B0 && TmpSymLogDepth == D0, "C13: label '+' is the next plus symbol and no minus symbol");
        VREACH("def plus");
    } else if (src == e_symbol_source_none && cls == 1 && k <= LOCSYMSIGHT) {
        if (k <= D0) {
            VPOST(r && g_tn_kind == (L0[k - 1].Back ? 1 : 2) && g_tn_num == L0[k - 1].Counter, "C13: k minus signs name the k-th last minus symbol");
            VREACH("ref minus");
        } else {
            VPOST(!r && g_tn_calls == 0, "C13: a minus reference behind the first minus symbol is no temporary symbol");
            VREACH("ref minus none");
        }
        VPOST(FwdSymCounter == F0 && BackSymCounter == B0 && TmpSymLogDepth == D0, "C13: a reference changes nothing");
    } else if (src == e_symbol_source_none && cls == 2 && k <= LOCSYMSIGHT) {
        VPOST(r && g_tn_kind == 2 && g_tn_num == F0 + (k - 1), "C13: k plus signs name the k-th next plus symbol");
        VPOST(FwdSymCounter == F0 && BackSymCounter == B0 && TmpSymLogDepth == D0, "C13: a reference changes nothing");
        VREACH("ref plus");
    } else if (cls == 0 || (src == e_symbol_source_none && cls == 3)) {
        VPOST(!r && g_tn_calls == 0 && FwdSymCounter == F0 && BackSymCounter == B0 && TmpSymLogDepth == D0, "C13: any other name is no nameless temporary symbol and changes nothing");
        VREACH("other");
    }
    for (i = 0; i < LOCSYMSIGHT; i++)
        if (src == e_symbol_source_none) VPOST(TmpSymLog[i].Back == L0[i].Back && TmpSymLog[i].Counter == L0[i].Counter, "C13: references leave the log of minus symbols alone");
    VREACH("end");
}

/* Named ($$) and composed (.name) temporary symbols (manual, "Temporary Symbols"): both are private to the stretch between two
 * non-temporary labels.  "$$x" becomes x + a suffix that depends on the last non-temporary label only (same suffix for every
 * use up to the next such label, recomputed after it); ".x" becomes <last non-temporary label>.x; defining a non-temporary
 * symbol makes it the new anchor; a mere reference changes nothing.  Names of 0..4 characters over { $ . a b }. */
static int seq13(char const* a, char const* b) { int i; for (i = 0; i < 16; i++) { if (a[i] != b[i]) return 0; if (!a[i]) return 1; } return 1; }
void h_ChkTmp13(void) {
    static char name[STRINGSIZE], lg[STRINGSIZE]; char n0[6], l0[4], want[16], suf[4]; int src, i, k, had_suffix; Boolean r;
    VND_BYTES(name, 6); name[4] = 0;
    for (i = 0; i < 4; i++) VASSUME(name[i] == '$' || name[i] == '.' || name[i] == 'a' || name[i] == 'b' || name[i] == 0);
    VND_BYTES(lg, 4); lg[2] = 0; VASSUME((lg[0] == 'g' || lg[0] == 'q' || lg[0] == 0) && (lg[1] == 'g' || lg[1] == 0));
    LastGlobSymbol = lg;
    for (i = 0; i < 6; i++) n0[i] = name[i]; for (i = 0; i < 4; i++) l0[i] = lg[i];
    /* the suffix belonging to the current anchor, as the stand-in digest defines it */
    { int len = (lg[0] == 0) ? 0 : (lg[1] == 0) ? 1 : 2; suf[0] = 'h'; suf[1] = lg[0] ? lg[0] : '0'; suf[2] = (char)('0' + len); suf[3] = 0; }
    /* representation invariant: the cached suffix is empty or the one of the current anchor */
    VND(had_suffix, int); VASSUME(had_suffix == 0 || had_suffix == 1);
    if (had_suffix) { for (i = 0; i < 4; i++) TmpSymCounterVal[i] = suf[i]; } else TmpSymCounterVal[0] = 0;
    VND(src, int); VASSUME(src == e_symbol_source_none || src == e_symbol_source_label || src == e_symbol_source_define);
    FwdSymCounter = BackSymCounter = 0; TmpSymLogDepth = 0;
    r = ChkTmp(name, (as_symbol_source_t)src);
    if (n0[0] == '$' && n0[1] == '$') {
        k = 0; for (i = 2; i < 5 && n0[i]; i++) want[k++] = n0[i]; for (i = 0; i < 3; i++) want[k++] = suf[i]; want[k] = 0;
        VPOST(r && seq13(name, want), "C13: $$name becomes name + the suffix of the current stretch (a function of the last non-temporary label only)");
        VPOST(seq13(lg, l0), "C13: a named temporary symbol does not end the stretch");
        VPOST(seq13(TmpSymCounterVal, suf), "C13: the suffix stays the same for the rest of the stretch");
        VREACH("named");
    } else if (n0[0] == '.') {
        k = 0; for (i = 0; i < 3 && l0[i]; i++) want[k++] = l0[i]; for (i = 0; i < 5 && n0[i]; i++) want[k++] = n0[i]; want[k] = 0;
        VPOST(r && seq13(name, want), "C13: .name becomes <last non-temporary label>.name");
        VPOST(seq13(lg, l0), "C13: a composed temporary symbol does not end the stretch");
        VREACH("composed");
    } else if (n0[0] != '+' && n0[0] != '-' && n0[0] != '/') {
        VPOST(!r && seq13(name, n0), "C13: any other name is no temporary symbol and stays as written");
        if (src != e_symbol_source_none) {
            VPOST(seq13(lg, n0) && TmpSymCounterVal[0] == 0, "C13: defining a non-temporary symbol starts a new stretch: it is the new anchor and the $$ suffix is recomputed");
            VREACH("new anchor");
        } else {
            VPOST(seq13(lg, l0) && (TmpSymCounterVal[0] != 0) == (had_suffix != 0), "C13: a reference does not start a new stretch");
            VREACH("reference");
        }
    }
    VREACH("end");
}
#endif

