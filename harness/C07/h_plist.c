/* C07 harness: ProcessSingle of the real /repo/plist.c: one printed line per record with the true CPU family,
 * segment, start address, byte length and last address; per-segment sums.  printf is redirected to a fixed-arity
 * monitor that recognises the constant format strings of the record line. */
#include "verif.h"
#include <stdio.h>
#include <stdlib.h>
#include <string.h>
#include <errno.h>
#include "stubs/gfile.c"
#include "fileformat.h"
#include "addrspace.h"
#include "nlmessages.h"
#include "toolutils.h"
#include "ioerrs.h"
#include "headids.h"
#undef errno
#define errno verif_errno
static char msg_txt[2];
char* getmessage(int Num) { (void)Num; return msg_txt; }
char* catgetmessage(PMsgCat Catalog, int Num) { (void)Catalog; (void)Num; return msg_txt; }
char* GetErrorMsg(int number) { (void)number; return msg_txt; }
char const* Blanks(int cnt) { (void)cnt; return msg_txt; }
/* oracle for the CPU family table (headids.c): some ids are known, the name pointer identifies the entry */
static TFamilyDescr g_fam; static int g_fam_known; static Word g_fam_asked;
PFamilyDescr FindFamilyById(Word Id) { g_fam_asked = Id; return g_fam_known ? &g_fam : NULL; }
/* record-line monitor */
static int g_n_tot, g_n_badnum; static unsigned long g_tot_last; static char const* g_watch_seg; static int g_tot_seen_for_watch; static unsigned long g_tot_for_watch;
static int g_n_fam, g_n_unknown, g_n_seg, g_n_start, g_n_len, g_n_end, g_n_entry, g_n_other;
static unsigned long g_p_fam, g_p_unknown, g_p_seg, g_p_start, g_p_len, g_p_end, g_p_entry;
static int mon_printf(char const* fmt, unsigned long a, unsigned long b) {
    if (fmt[0] == '%' && fmt[1] == '-' && fmt[2] == '1') { g_n_fam++; g_p_fam = a; }                    /* "%-13s "        */
    else if (fmt[0] == '?') { g_n_unknown++; g_p_unknown = a; }                                            /* "???=%02x"      */
    else if (fmt[0] == '%' && fmt[1] == '-' && fmt[2] == '7') { g_n_seg++; g_p_seg = a; }                 /* "%-7s   "       */
    else if (fmt[0] == '%' && fmt[1] == '0' && fmt[2] == '8' && fmt[5] == ' ') { g_n_start++; g_p_start = a; } /* "%08lX          " */
    else if (fmt[0] == '%' && fmt[1] == '0' && fmt[2] == '4') { g_n_len++; g_p_len = a; }                 /* "%04X       "   */
    else if (fmt[0] == '%' && fmt[1] == '0' && fmt[2] == '8' && fmt[5] == '\n') { g_n_end++; g_p_end = a; }   /* "%08lX\n"       */
    else if (fmt[0] == '%' && fmt[1] == 's' && fmt[2] == '%' && fmt[3] == '0') { g_n_entry++; g_p_entry = b; } /* "%s%08lX\n"     */
    else if (fmt[0] == '%' && (fmt[1] == 'u' || (fmt[1] == 'l' && fmt[2] == 'u'))) { g_n_tot++; g_tot_last = a; }   /* "%" PRIu32 : a segment total */
    else if (fmt[0] == 'u' || (fmt[0] == 'l' && fmt[1] == 'u')) g_n_badnum++;                              /* conversion without '%': prints the letter */
    else if (fmt[0] == '%' && fmt[1] == 's' && fmt[2] == '%' && fmt[3] == 's' && fmt[4] == '\n') {          /* "%s%s\n": unit + segment name ends a total line */
        if ((char const*)b == g_watch_seg) { g_tot_seen_for_watch = g_n_tot; g_tot_for_watch = g_tot_last; }
        g_n_tot = 0;
    }
    else g_n_other++;
    return 0;
}
#define VA3(f, a, b, ...) (f), (unsigned long)(a), (unsigned long)(b)
#define printf(...) mon_printf(VA3(__VA_ARGS__, 0, 0, 0))
static int mon0(void) { return 0; }
#define fprintf(...) mon0()
#define fputs(a, b) mon0()
#define putchar(c) mon0()
static FILE* mon_fopen(void) { return GF_FILE(0); }
#define fopen(n, m) mon_fopen()
/* environment of main(): initialisers and option parsing are oracles (one file name argument, no options) */
#include "nls.h"
#include "cmdarg.h"
void nls_init(void) {}
Boolean NLS_Initialize(int* argc, char** argv) { (void)argc; (void)argv; return True; }
void strutil_init(void) {}
void nlmessages_init(char const* File, char* ProgPath, LongInt MsgId1, LongInt MsgId2) { (void)File; (void)ProgPath; (void)MsgId1; (void)MsgId2; }
void ioerrs_init(char* ProgPath) { (void)ProgPath; }
void opencatalog(PMsgCat Catalog, char const* File, char const* Path, LongInt File_MsgId1, LongInt File_MsgId2) { (void)Catalog; (void)File; (void)Path; (void)File_MsgId1; (void)File_MsgId2; }
void cmdarg_init(char* ProgPath) { (void)ProgPath; }
void ProcessCMD(int argc, char** argv, CMDRec const* pCMDRecs, int CMDRecCnt, CMDProcessed Unprocessed, char const* EnvName, CMDErrCallback ErrProc) {
    int z; (void)argv; (void)pCMDRecs; (void)CMDRecCnt; (void)EnvName; (void)ErrProc;
    (void)z; Unprocessed[0] = False; Unprocessed[1] = (Boolean)(1 < argc); Unprocessed[2] = (Boolean)(2 < argc); Unprocessed[3] = (Boolean)(3 < argc);
}
Boolean ProcessedEmpty(CMDProcessed Processed) { return (Boolean)!(Processed[1] || Processed[2] || Processed[3]); }
char const* GetEXEName(char const* argv0) { return argv0; }
size_t strmaxcpy(char* dest, char const* src, size_t Max) { size_t n = 0; if (!Max) return 0; while (n < 3 && src[n] && n + 1 < Max) { dest[n] = src[n]; n++; } dest[n] = 0; return n; }
void AddSuffix(char* s, unsigned Size, char const* Suff) { (void)s; (void)Size; (void)Suff; }
#define main plist_main
#include "contracts/loop_defaults.h"
#include "plist.c" /* the real /repo/plist.c */
#undef main
#undef fopen
#undef printf

static void mk_file(int i) {
    VND(gf[i].len, long); VND(gf[i].pos, long); VND(gf[i].w_off, long); VND(gf[i].w_val, uchar);
    VASSUME(gf[i].len >= 0 && gf[i].len <= 0x7fffffff && gf[i].pos >= 0 && gf[i].pos <= gf[i].len && gf[i].w_off >= 0);
    gf[i].is_open = 1; gf[i].fail_writes = 0; gf[i].n_write_calls = 0; gf[i].n_read_calls = 0; gf[i].bytes_written = 0; gf[i].io_error = 0;
}

/* one data record (long header form) + end record with an empty creator string */
void h_ProcessSingle_data(void) {
    Byte cpu, seg, gran; unsigned long start; unsigned len; char name[2]; int k; LongWord sum0, sumk0; int complete, valid;
    gf_reset(); mk_file(0); gf[0].pos = 0; gf_cell_mode = 0;
    msg_txt[0] = 'm'; msg_txt[1] = 0; name[0] = 'f'; name[1] = 0; QuietMode = True; NumFiles = 1;
    VND(cpu, uchar); VND(seg, uchar); VND(gran, uchar); VND(start, ulong); VND(len, uint);
    VASSUME(start <= 0xffffffffu && len <= 0xffff);
#ifdef VERIF_GRAN
    gran = VERIF_GRAN;        /* one obligation group per granularity (0 = invalid): the quotient length / granularity becomes a shift */
#endif
    VND(g_fam_known, int); g_fam.Name = "fam"; g_fam.Id = cpu;
    gf_script_i = 0; gf_script[0] = FileMagic; gf_script[1] = FileHeaderDataRec; gf_script[2] = cpu; gf_script[3] = seg; gf_script[4] = gran;
    gf_script[5] = start; gf_script[6] = len; gf_script[7] = FileHeaderEnd; gf_script_n = 8;
    /* the file ends right after the end-record byte (empty creator string) when it is complete */
    complete = (12 + (long)len + 1 <= gf[0].len);
    VASSUME(gf[0].len >= 12 && gf[0].len <= 12 + (long)len + 3);      /* truncated payload, or complete with a creator string of at most 2 characters */
    valid = seg < SegCount && gran != 0;
    VND(k, int); VASSUME(k >= 0 && k < SegCount);
    VND(Sums[k], uint); if (valid) VND(Sums[seg], uint);      /* the other totals are zero-initialised statics */
    sum0 = valid ? Sums[seg] : 0; sumk0 = Sums[k];
    g_n_fam = g_n_unknown = g_n_seg = g_n_start = g_n_len = g_n_end = g_n_entry = g_n_other = 0;
    ProcessSingle(name);
    /* ProcessSingle returned: the file was accepted */
    VPOST(valid, "C03: a record with a segment number outside the table or granularity 0 is rejected as a format error (never used as index or divisor)");
    VPOST(12 + (long)len < gf[0].len, "C03: a record whose payload runs past the end of the file is rejected as a format error");
    if (!valid || !(12 + (long)len < gf[0].len)) return;
    VPOST(g_n_start == 1 && g_n_len == 1 && g_n_end == 1 && g_n_seg == 1 && g_n_fam + g_n_unknown == 1, "C07: PLIST prints one line per record");
    VPOST(g_p_start == start && g_p_len == len, "C07: the line shows the record's true start address and byte length");
    VPOST(g_p_end == (unsigned long)(LongWord)(len ? start + len / gran - 1 : start - 1), "C07: the line shows the record's true last address (start + length / granularity - 1)");
    VPOST(g_p_seg == (unsigned long)SegNames[seg], "C07: the line names the record's segment");
    VPOST(g_fam_asked == cpu && (g_fam_known ? (g_n_fam == 1 && g_p_fam == (unsigned long)g_fam.Name) : g_n_unknown == 1), "C07: the line names the CPU family of the record's CPU id");
    VPOST(Sums[seg] == (LongWord)(sum0 + len), "C07: the segment total grows by the record's byte length");
    VPOST(k == seg || Sums[k] == sumk0, "C07: the totals of the other segments are unchanged");
    VREACH("end");
}

/* main(): the totals line of each segment shows the sum of the byte lengths of its records (one file, one record) */
void h_main_totals(void) {
    Byte cpu, seg; unsigned long start; unsigned len; char a0[2], a1[2]; char* argv[3]; int k;
    gf_reset(); mk_file(0); gf[0].pos = 0; gf_cell_mode = 0;
    msg_txt[0] = 'm'; msg_txt[1] = 0; a0[0] = 'p'; a0[1] = 0; a1[0] = 'f'; a1[1] = 0; argv[0] = a0; argv[1] = a1; argv[2] = NULL;
    QuietMode = True;
    VND(cpu, uchar); VND(seg, uchar); VND(start, ulong); VND(len, uint);
    VASSUME(start <= 0xffffffffu && len <= 0xffff && seg < SegCount);
    g_fam_known = 1; g_fam.Name = "fam"; g_fam.Id = cpu;
    gf_script_i = 0; gf_script[0] = FileMagic; gf_script[1] = FileHeaderDataRec; gf_script[2] = cpu; gf_script[3] = seg; gf_script[4] = 1;
    gf_script[5] = start; gf_script[6] = len; gf_script[7] = FileHeaderEnd; gf_script_n = 8;
    VASSUME(gf[0].len == 12 + (long)len + 1);
    VND(k, int); VASSUME(k >= 0 && k < SegCount);
    VND(Sums[k], uint);                                   /* whatever was there before: main starts from zero */
    g_watch_seg = SegNames[k]; g_tot_seen_for_watch = -1; g_n_tot = 0; g_n_badnum = 0;
    (void)plist_main(2, argv);
    VPOST(g_n_badnum == 0, "C07: every number of the summary is printed through a conversion (format string starts with %)");
    if (k == seg) {
        VPOST((len != 0 || k == SegCode) ? (g_tot_seen_for_watch == 1 && g_tot_for_watch == len) : g_tot_seen_for_watch == -1,
              "C07: the total printed for a segment is the sum of the byte lengths of its records");
        VREACH("seg");
    } else {
        VPOST(k == SegCode ? (g_tot_seen_for_watch == 1 && g_tot_for_watch == 0) : g_tot_seen_for_watch == -1, "C07: segments without records show no total (CODE shows 0)");
        VREACH("other");
    }
}

/* a relocation-info record that is cut short: ReadRelocInfo yields no table; PLIST must report a format error and
 * never touch the missing table (CBMC's pointer checks in ProcessSingle are the obligation) */
void h_ProcessSingle_reloc_truncated(void) {
    char name[2]; long cut;
    gf_reset(); mk_file(0); gf[0].pos = 0; gf_cell_mode = 0;
    msg_txt[0] = 'm'; msg_txt[1] = 0; name[0] = 'f'; name[1] = 0; QuietMode = True; NumFiles = 1; verif_errno = 0;
    gf_script_i = 0; gf_script[0] = FileMagic; gf_script[1] = FileHeaderRelocInfo; gf_script[2] = 1; gf_script[3] = 0; gf_script[4] = 4; gf_script_n = 5;
    VND(cut, long); VASSUME(cut >= 3 && cut < 3 + 12 + 16);     /* the file ends somewhere inside the counts or the first entry */
    gf[0].len = cut;
    ProcessSingle(name);
    VPOST(0, "C03: a truncated relocation-info record is rejected as a format error (PLIST does not go on)");
}
