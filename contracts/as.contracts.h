/* Contracts for the run-level part of /repo/as.c (properties C02, C01).
 *
 * AssembleFile: the pass loop is closed by the loop contract VERIF_LOOP(as_passloop).
 * Everything a pass does (ProcessFile, AssembleFile_InitPass, AssembleFile_ExitPass, and all
 * functions of other translation units) is replaced by "havoc with frame": they may set
 * ErrorCount, WarnCount and Repass to anything.  Ghost: g_out_exists (the code file is on
 * disk: set by OpenFile, cleared by unlink(OutName)), g_sum_vals (numbers printed by the
 * "%7u" summary lines).
 */
#ifndef AS_CONTRACTS_H
#define AS_CONTRACTS_H
#include "stdinc.h"
#include "asmdef.h"
#include "asmerr.h"

extern int           g_out_exists, g_sum_n, g_openfile_calls;
extern unsigned long g_sum_vals[4];
extern int           verif_errno;

#define VERIF_LOOP_as_passloop                                                               \
    __CPROVER_assigns(PassNo, ErrorCount, WarnCount, Repass, g_out_exists, g_openfile_calls, verif_errno, \
                      ShareFile, LstFile, MacProFile, MacroFile, __CPROVER_object_whole(Tmp)) \
    /* after every pass: the code file of that pass is on disk unless another pass follows */ \
    __CPROVER_loop_invariant(PassNo >= 0 && PassNo < 0x7fffffff)                             \
    __CPROVER_loop_invariant(PassNo == 0 || !CodeOutput || g_out_exists || (ErrorCount == 0 && Repass))

#ifdef VERIF_CBMC
static void AssembleFile_InitPass(void)
    /* assumed: fewer than 2^31 - 1 passes */
    __CPROVER_requires(PassNo >= 0 && PassNo < 0x7fffffff)
    __CPROVER_ensures(PassNo >= 1 && PassNo < 0x7fffffff)
    __CPROVER_assigns(PassNo, Repass, ErrorCount, WarnCount);
static void AssembleFile_ExitPass(void)
    __CPROVER_requires(1) __CPROVER_ensures(1)
    __CPROVER_assigns(Repass, ErrorCount, WarnCount);
static void ProcessFile(char* FileName)
    __CPROVER_requires(1) __CPROVER_ensures(1)
    __CPROVER_assigns(Repass, ErrorCount, WarnCount);
static void AssembleFile_WrSummary(char const* pStr)
    __CPROVER_requires(1) __CPROVER_ensures(1)
    __CPROVER_assigns();
#endif
#endif
