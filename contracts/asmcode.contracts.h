/* Contracts for the code-file writer /repo/asmcode.c (property C04).
 *
 * Representation invariant of the writer (open data record):
 *   INV == CodeBufferFill < 512  &&  CodeBufferFill <= LenSoFar  &&  LenPos == RecPos + 8
 *          && file.len == LenPos + 2 + (LenSoFar - CodeBufferFill)  &&  file.pos == file.len
 * Logical payload of the open record: file[LenPos+2 ...) followed by CodeBuffer[0..Fill).
 * Payload byte p lives in the file at offset LenPos+2+p if that is below file.len, else in
 * CodeBuffer[LenPos+2+p - file.len].
 * The code file is gf[1] of the ghost file model; gf[1].w_off is the witness offset.
 * Ghost snapshot: g_o_lensofar, g_o_fill, g_o_recpos, g_o_lenpos, g_o_flen; g_src = the byte
 * of the line's code that the witness position must receive; g_w_old = value the witness
 * position held at entry (file byte or buffer byte).
 */
#ifndef ASMCODE_CONTRACTS_H
#define ASMCODE_CONTRACTS_H
#include "stdinc.h"
#include "asmdef.h"
#include "asmcode.h"
#include "fileformat.h"
#include "stubs/gfile.h"
#include "stubs/gerr.h"

#define PRG gf[1]
extern long          g_o_lensofar, g_o_fill, g_o_recpos, g_o_lenpos, g_o_flen;
extern unsigned      g_src, g_w_old, g_gran, gk_j;
extern int           g_exit_code;

static Word    LenSoFar;
static LongInt RecPos, LenPos;
static Boolean ThisRel;
static Word    CodeBufferFill;
static Byte*   CodeBuffer;

#define WR_INV                                                                              \
    (CodeBufferFill < 512 && CodeBufferFill <= LenSoFar && LenPos == RecPos + 8 && RecPos >= 2 &&      \
     PRG.len == (long)LenPos + 2 + ((long)LenSoFar - (long)CodeBufferFill) && PRG.pos == PRG.len && \
     PRG.len <= 0x70000000 && PrgFile == GF_FILE(1) && !PRG.fail_writes)
/* value of the (logical) file byte at absolute offset off, looking through the buffer */
#define LOGICAL_BYTE(off) (((off) < PRG.len) ? PRG.w_val : CodeBuffer[(off) - PRG.len])

#define WR_SNAP                                                                             \
    __CPROVER_requires(g_o_lensofar == LenSoFar && g_o_fill == CodeBufferFill && g_o_recpos == RecPos && \
                       g_o_lenpos == LenPos && g_o_flen == PRG.len)
#define WR_FRAME                                                                            \
    __CPROVER_assigns(LenSoFar, RecPos, LenPos, ThisRel, CodeBufferFill, __CPROVER_object_whole(CodeBuffer)) \
    __CPROVER_assigns(PRG.pos, PRG.len, PRG.w_val, PRG.n_write_calls, PRG.bytes_written, PRG.io_error, verif_errno, g_exit_code)

/* loop contracts for the anchors VERIF_LOOP(asmcode_turn2 / asmcode_turn4) in DreheCodes: witness word gk_t with the
 * value g_t_old it had on entry -- words below z are turned, words from z on are untouched */
extern unsigned gk_t, g_t_old, gk_b, g_b_old; /* gk_b: witness byte behind the last whole word (frame) */
#define TURN16(w) ((Word)((((w) & 0xffu) << 8) + (((w) & 0xff00u) >> 8)))
#define TURN32(w) ((LongWord)((((w) & 0xffu) << 24) | (((w) & 0xff00u) << 8) | (((w) & 0xff0000u) >> 8) | (((w) & 0xff000000u) >> 24)))
#define VERIF_LOOP_asmcode_turn2                                                                                       \
    __CPROVER_assigns(z, __CPROVER_object_whole(WAsmCode))                                                             \
    __CPROVER_loop_invariant(0 <= z && z <= (l >> 1))                                                                  \
    __CPROVER_loop_invariant(!((LongInt)gk_t < (l >> 1)) || WAsmCode[gk_t] == ((LongInt)gk_t < z ? TURN16(g_t_old) : (Word)g_t_old)) \
    __CPROVER_loop_invariant(!((LongInt)gk_b < l && (LongInt)gk_b >= ((l >> 1) << 1)) || BAsmCode[gk_b] == (Byte)g_b_old)                 \
    __CPROVER_decreases((l >> 1) - z)
#define VERIF_LOOP_asmcode_turn4                                                                                       \
    __CPROVER_assigns(z, __CPROVER_object_whole(DAsmCode))                                                             \
    __CPROVER_loop_invariant(0 <= z && z <= (l >> 2))                                                                  \
    __CPROVER_loop_invariant(!((LongInt)gk_t < (l >> 2)) || DAsmCode[gk_t] == ((LongInt)gk_t < z ? TURN32(g_t_old) : (LongWord)g_t_old)) \
    __CPROVER_loop_invariant(!((LongInt)gk_b < l && (LongInt)gk_b >= ((l >> 2) << 2)) || BAsmCode[gk_b] == (Byte)g_b_old)                 \
    __CPROVER_decreases((l >> 2) - z)

#ifdef VERIF_CBMC
/* DreheCodes: byte permutation inside each listing unit (assumed here, see h_asmcode.c) */
void DreheCodes(void)
    __CPROVER_requires(1) __CPROVER_ensures(1)
    __CPROVER_assigns(__CPROVER_object_whole(BAsmCode));

static void FlushBuffer(void)
    __CPROVER_requires(WR_INV) WR_SNAP
    __CPROVER_requires(PRG.w_off >= 0)
    __CPROVER_ensures(CodeBufferFill == 0 && LenSoFar == g_o_lensofar && RecPos == g_o_recpos && LenPos == g_o_lenpos)
    __CPROVER_ensures(WR_INV)
    /* the buffered bytes are now in the file, nothing else moved (witness) */
    __CPROVER_ensures(!(PRG.w_off < PRG.len) || PRG.w_val == g_w_old)
    WR_FRAME;

/* WriteBytes, case "fits into the open record": the line's bytes are appended to the payload */
void WriteBytes(void)
    __CPROVER_requires(WR_INV) WR_SNAP
    __CPROVER_requires(g_gran == 1 || g_gran == 2 || g_gran == 4)
    __CPROVER_requires(CodeLen >= 0 && (long)CodeLen * g_gran <= 65535 && (unsigned long)CodeLen * g_gran <= MaxCodeLen)
    __CPROVER_requires(TurnWords == 0)
    __CPROVER_requires((long)LenSoFar + (long)CodeLen * g_gran <= 0xffff)
    __CPROVER_ensures(WR_INV)
    __CPROVER_ensures(LenSoFar == g_o_lensofar + (long)CodeLen * g_gran && RecPos == g_o_recpos && LenPos == g_o_lenpos)
    WR_FRAME;
#endif
#endif
