/* C06 harness (bounded): the data-line path of ProcessFile of the real /repo/p2hex.c.
 * The source code file is a small file with every byte modelled (stubs/gfile_small.c); the hex text is observed
 * through an fprintf monitor that collects the hex digit groups of the current line as bytes.  At every end of line
 * the line is checked against the PUBLIC definition of the format (count field, checksum) and decoded: its data
 * bytes must be the next bytes of the record, at the next addresses (nothing lost, duplicated, reordered, shifted). */
#include "verif.h"
#include <stdio.h>
#include <stdlib.h>
#include <string.h>
#include <errno.h>
#define GS_MAX 32
#include "stubs/gfile_small.c"
#include "fileformat.h"
#include "addrspace.h"
#include "nlmessages.h"
#include "toolutils.h"
#include "ioerrs.h"
#include "chunks.h"
#include "headids.h"
#undef errno
#define errno verif_errno
static char msg_txt[2];
char* getmessage(int Num) { (void)Num; return msg_txt; }
char* catgetmessage(PMsgCat Catalog, int Num) { (void)Catalog; (void)Num; return msg_txt; }
char* GetErrorMsg(int number) { (void)number; return msg_txt; }
PFamilyDescr FindFamilyById(Word Id) { (void)Id; return NULL; }
static Boolean verif_FilterOK(Byte Header) { (void)Header; return True; }
static Boolean verif_AddChunk(ChunkList* NChunk, LargeWord NewStart, LargeWord NewLen, Boolean Warn) { (void)NChunk; (void)NewStart; (void)NewLen; (void)Warn; return False; }
#define FilterOK(h) verif_FilterOK(h)
#define AddChunk(a, b, c, d) verif_AddChunk((a), (b), (c), (d))

/* ---- the hex text monitor ------------------------------------------------------------------------------- */
#define LMAX 16
static unsigned char L[LMAX]; static int Ln; static char Lmark, Ltype; static int g_stray, g_lines, g_bad_struct;
static unsigned long g_base, g_next, g_rec_start, g_rec_len; static int g_data_lines, g_fmt_kind; /* 1 Moto, 2 Intel, 3 MOS, 4 Tek */
static unsigned g_mos_expected_reset; static int g_s5_seen, g_trailers; static unsigned g_s5_val, g_s5_expect;
static void put2(unsigned long v) { if (Ln >= 0 && Ln < LMAX) L[Ln] = (unsigned char)v; Ln++; }
static void put4(unsigned long v) { put2(v >> 8); put2(v); }
static unsigned nib(unsigned b) { return (b >> 4) + (b & 15); }
static void line_done(void);
static int mon_fprintf(FILE* f, char const* fmt, unsigned long a0, unsigned long a1, unsigned long a2) {
    if (f != GS_FILE(1)) return 0;                                          /* console / stderr messages */
    if (fmt[0] == 'S' && fmt[1] == '0') { Lmark = 'S'; Ltype = '0'; Ln = 0; put2(3); put4(0); put2(0xFC); line_done(); }
    else if (fmt[0] == 'S' && fmt[1] == '5') { Lmark = 'S'; Ltype = '5'; Ln = 0; put2(3); put4(a0); put2(a1); line_done(); }
    else if (fmt[0] == 'S' && fmt[1] == '%') { Lmark = 'S'; Ltype = (char)a0; Ln = 0; put2(a1); }
    else if (fmt[0] == ':' && fmt[1] == '0' && fmt[2] == '2') { Lmark = ':'; Ln = 0; put2(2); put4(0); put2(fmt[8] - '0'); put4(a0); put2(a1); line_done(); }
    else if (fmt[0] == ':' && fmt[1] == '%') { Lmark = ':'; Ln = 0; put2(a0); put4(a1); put2(0); }
    else if (fmt[0] == ';') { Lmark = ';'; Ln = 0; put2(a0); put4(a1); }
    else if (fmt[0] == '/') { Lmark = '/'; Ln = 0; put4(a0); put2(a1); put2(a2); }
    else if (fmt[0] == '%' && fmt[1] == '0' && fmt[2] == '2' && fmt[3] == 'X' && fmt[4] == 0) { if (Lmark) put2(a0); else g_stray++; }
    else if (fmt[0] == '%' && fmt[1] == '0' && fmt[2] == '4' && fmt[3] == 'X' && fmt[4] == 0) { if (Lmark) put4(a0); else g_stray++; }
    else if (fmt[0] == '%' && fmt[1] == '0' && fmt[2] == '2' && fmt[3] == 'X' && fmt[4] == '\n') { if (Lmark) { put2(a0); line_done(); } else g_stray++; }
    else if (fmt[0] == '%' && fmt[1] == '0' && fmt[2] == '4' && fmt[3] == 'X' && fmt[4] == '\n') { if (Lmark) { put4(a0); line_done(); } else g_stray++; }
    else g_stray++;
    return 0;
}
/* console channels are distinct objects (CBMC's stdout/stderr are unconstrained pointers that could alias the target) */
static int g_stderr_obj, g_stdout_obj;
#undef stderr
#undef stdout
#define stderr ((FILE*)&g_stderr_obj)
#define stdout ((FILE*)&g_stdout_obj)
#define VA5(f, fmt, a, b, c, ...) (f), (fmt), (unsigned long)(a), (unsigned long)(b), (unsigned long)(c)
#define fprintf(...) mon_fprintf(VA5(__VA_ARGS__, 0, 0, 0, 0))
static int mon0(void) { return 0; }
#define printf(...) mon0()
#define fputs(a, b) mon0()
static int g_open_which;
static FILE* mon_fopen(void) { gs[g_open_which].pos = 0; gs[g_open_which].is_open = 1; return GS_FILE(g_open_which); }
#define fopen(n, m) mon_fopen()
#define main p2hex_main
#include "contracts/loop_defaults.h"
#include "p2hex.c" /* the real /repo/p2hex.c */
#undef main
#undef fopen
#undef fprintf
#undef FilterOK
#undef AddChunk

/* one complete line is in L[0..Ln): check it by the public definition of its format and decode it */
static void data_bytes(unsigned long addr, int first, int n) {
    int i;
    VASSERT(addr == g_next, "C06: data lines carry consecutive addresses: nothing lost, duplicated, reordered or shifted");
    for (i = 0; i < 8; i++) if (i < n) {
        unsigned long a = addr + (unsigned long)i;
        VASSERT(a >= g_rec_start && a < g_rec_start + g_rec_len, "C06: every emitted byte lies inside the record's address range");
        VASSERT(L[first + i] == gs[0].data[12 + (a - g_rec_start)], "C06: the byte decoded at an address is the byte the code file places there");
    }
    g_next = addr + (unsigned long)n; g_data_lines++;
}
static void line_done(void) {
    unsigned sum = 0; int i; unsigned cnt;
    g_lines++;
    VASSERT(Ln > 0 && Ln <= LMAX, "C06 monitor: line fits the monitor buffer");
    if (Lmark == ':') {                                       /* Intel: :CCAAAATT data.. SS, all bytes sum to 0 */
        for (i = 0; i < LMAX; i++) if (i < Ln) sum += L[i];
        VASSERT((sum & 0xff) == 0, "C06: Intel hex record checksum (two's complement of the byte sum)");
        cnt = L[0];
        VASSERT(Ln == (int)cnt + 5, "C06: Intel hex count field equals the number of data bytes");
        if (L[3] == 0) data_bytes(g_base + (((unsigned long)L[1] << 8) | L[2]), 4, (int)cnt);
        else if (L[3] == 2) g_base = ((((unsigned long)L[4]) << 8) | L[5]) << 4;
        else if (L[3] == 4) g_base = ((((unsigned long)L[4]) << 8) | L[5]) << 16;
        else g_bad_struct++;
    } else if (Lmark == 'S') {                                /* Motorola: S<t>CC addr data.. SS, one's complement of the byte sum */
        for (i = 0; i < LMAX; i++) if (i < Ln) sum += L[i];
        VASSERT((sum & 0xff) == 0xff, "C06: Motorola S-record checksum (one's complement of the byte sum)");
        cnt = L[0];
        VASSERT(Ln == (int)cnt + 1, "C06: Motorola S-record count field equals address + data + checksum bytes");
        if (Ltype >= '1' && Ltype <= '3') {
            int alen = 2 + (Ltype - '1'); unsigned long a = 0;
            for (i = 0; i < 4; i++) if (i < alen) a = (a << 8) | L[1 + i];
            data_bytes(a, 1 + alen, (int)cnt - alen - 1);
        } else if (Ltype == '5') { g_s5_seen++; g_s5_val = (((unsigned)L[1]) << 8) | L[2]; if (g_data_lines != 0) g_bad_struct++;
#ifdef VERIF_S5ONLY
            /* record-count record of a group of any size: count and checksum are decided here, then the path ends (the data
             * lines of long records are outside the bounded line loop) */
            VASSERT(g_s5_val == g_s5_expect, "C06: the S5 record carries the number of data lines of the group (record length / line length, rounded up)");
            if (g_s5_val >= 256) VREACH("S5 count >= 256");
            if (g_s5_val < 256) VREACH("S5 count < 256");
            VASSUME(0);
#endif
        }
        else if (Ltype >= '7' && Ltype <= '9') { g_trailers++; for (i = 1; i < LMAX; i++) if (i < Ln - 1 && L[i] != 0) g_bad_struct++; }
        else if (Ltype != '0') g_bad_struct++;
    } else if (Lmark == ';') {                                /* MOS: ;CCAAAA data.. SSSS, 16-bit sum of count, address and data */
        for (i = 0; i < LMAX; i++) if (i < Ln - 2) sum += L[i];
        VASSERT(Ln >= 5 && ((((unsigned)L[Ln - 2]) << 8) | L[Ln - 1]) == (sum & 0xffff), "C06: MOS record checksum (16-bit sum of count, address and data bytes of this record)");
        cnt = L[0];
        VASSERT(Ln == (int)cnt + 5, "C06: MOS count field equals the number of data bytes");
        data_bytes((((unsigned long)L[1]) << 8) | L[2], 3, (int)cnt);
    } else if (Lmark == '/') {                                /* Tektronix: /AAAACCSS data.. SS */
        cnt = L[2];
        VASSERT(Ln == (int)cnt + 5, "C06: Tektronix count field equals the number of data bytes");
#ifndef VERIF_EXCLUDE_C06_TEK_CHECKSUM
        VASSERT(L[3] == ((nib(L[0]) + nib(L[1]) + nib(L[2])) & 0xff), "C06: Tektronix header checksum (sum of the six hex digits of address and count)");
        for (i = 0; i < LMAX; i++) if (i >= 4 && i < Ln - 1) sum += nib(L[i]);
        VASSERT(L[Ln - 1] == (sum & 0xff), "C06: Tektronix data checksum (sum of the hex digits of the data bytes)");
#endif
        data_bytes((((unsigned long)L[0]) << 8) | L[1], 4, (int)cnt);
    } else g_bad_struct++;
    Lmark = 0; Ln = 0;
}

#ifndef VERIF_FORMAT
#define VERIF_FORMAT eHexFormatIntel
#endif
#ifndef VERIF_MAXLEN
#define VERIF_MAXLEN 6
#endif
void h_ProcessFile_lines(void) {
    Byte cpu; unsigned long start, out0; unsigned len; char name[2]; int i;
    msg_txt[0] = 'm'; msg_txt[1] = 0; name[0] = 'f'; name[1] = 0; QuietMode = True; verif_errno = 0;
    VND(cpu, uchar); VND(start, ulong); VND(len, uint);
    VASSUME(len >= 1 && len <= VERIF_MAXLEN);
    /* source: magic, one data record (long header, CODE segment, granularity 1), payload, end record, one more byte */
    gs[0].data[0] = 0x89; gs[0].data[1] = 0x14; gs[0].data[2] = FileHeaderDataRec; gs[0].data[3] = cpu; gs[0].data[4] = SegCode; gs[0].data[5] = 1;
    gs[0].data[6] = (unsigned char)start; gs[0].data[7] = (unsigned char)(start >> 8); gs[0].data[8] = (unsigned char)(start >> 16); gs[0].data[9] = (unsigned char)(start >> 24);
    gs[0].data[10] = (unsigned char)len; gs[0].data[11] = 0;
    for (i = 12; i < GS_MAX; i++) VND(gs[0].data[i], uchar);
    for (i = 0; i < VERIF_MAXLEN + 2; i++) if (i == (int)len) { gs[0].data[12 + i] = FileHeaderEnd; }
    gs[0].len = 12 + (long)len + 2; gs[0].pos = 0; gs[0].is_open = 1; gs[0].fail = 0;
    gs[1].len = 0; gs[1].pos = 0; gs[1].is_open = 1; gs[1].fail = 0;
    TargFile = GS_FILE(1); g_open_which = 0;
    DestFormat = VERIF_FORMAT; ForceSegment = SegNone; MultiMode = 0; AVRLen = 3;
    /* -a (addresses relative to the window start), -R (relocation), Motorola S5 count records and separate S9 trailers */
    VND(RelAdr, uchar); VASSUME(RelAdr <= 1); { long long rl; VND(rl, i64); VASSUME(rl >= 0 && rl <= 0x10000); Relocate = rl; }
    VND(Rec5, uchar); VASSUME(Rec5 <= 1); VND(SepMoto, uchar); VASSUME(SepMoto <= 1);
#ifdef VERIF_MINMOTO
    MinMoto = VERIF_MINMOTO;
#else
    VND(MinMoto, uchar); VASSUME(MinMoto >= 1 && MinMoto <= 3);
#endif
    VND(LineLen, uint); VASSUME(LineLen >= 1 && LineLen <= 8);
    for (i = 0; i < SegCount; i++) { StartAdr[i] = 0; StopAdr[i] = 0xffffffffu; }
    { unsigned ws; VND(ws, uint); VASSUME(ws <= start); StartAdr[SegCode] = ws; }          /* window start at or below the record: nothing is clipped */
    out0 = (RelAdr ? start - StartAdr[SegCode] : start) + (unsigned long)Relocate;            /* address the first byte must decode to */
    /* addresses the format can express */
    VASSUME(start <= 0xffffffffu && start + len - 1 <= 0xffffffffu);
#if VERIF_FORMAT == 2 || VERIF_FORMAT == 5 || VERIF_FORMAT == 6
    VASSUME(out0 + len - 1 <= 0xffffu);
#elif VERIF_FORMAT == 3
    VASSUME(out0 + len - 1 <= 0xfffffu);
#else
    VASSUME(out0 + len - 1 <= 0xffffffffu);
#endif
    FormatOccured = 0; MaxMoto = 0; MaxIntel = 0; EntryAdrPresent = False;
    g_stray = g_lines = g_bad_struct = g_data_lines = 0; Lmark = 0; Ln = 0; g_base = 0;
    g_rec_start = out0; g_rec_len = len; g_next = out0; g_s5_seen = 0; g_s5_val = 0; g_trailers = 0;
    ProcessFile(name, 0);
    VPOST(g_next == out0 + len, "C06: decoding the output yields every byte of the record exactly once, in address order, at its address after -a / -R");
    VPOST(VERIF_FORMAT != 1 || (g_s5_seen == (Rec5 ? 1 : 0) && (!Rec5 || g_s5_val == (unsigned)g_data_lines)), "C06: a Motorola S5 record (when requested) carries the number of data records that follow");
    VPOST(VERIF_FORMAT != 1 || g_trailers == (SepMoto ? 1 : 0), "C06: with separate trailers each record group ends with its S7/S8/S9 record");
    VPOST(g_stray == 0 && g_bad_struct == 0 && Lmark == 0, "C06: the output consists of complete, well-formed lines of the chosen format only");
    VPOST(g_data_lines >= 1, "C06: a non-empty record produces data lines");
    VREACH("end");
}

#ifdef VERIF_S5ONLY
/* Motorola S5 (record count) record for a data record of ANY length 1..65535 (line lengths 1, 2, 16, 32, 255): count field and
 * checksum by the public definition (the line monitor checks the checksum of every S line).  The path is cut after the S5
 * line; the data lines themselves are the subject of hex_lines_MotoS_*. */
void h_ProcessFile_S5(void) {
    Byte cpu; unsigned long start; unsigned len; char name[2]; int i;
    msg_txt[0] = 'm'; msg_txt[1] = 0; name[0] = 'f'; name[1] = 0; QuietMode = True; verif_errno = 0;
    VND(cpu, uchar); VND(start, ulong); VND(len, uint);
    VASSUME(len >= 1 && len <= 65535);
    gs[0].data[0] = 0x89; gs[0].data[1] = 0x14; gs[0].data[2] = FileHeaderDataRec; gs[0].data[3] = cpu; gs[0].data[4] = SegCode; gs[0].data[5] = 1;
    gs[0].data[6] = (unsigned char)start; gs[0].data[7] = (unsigned char)(start >> 8); gs[0].data[8] = (unsigned char)(start >> 16); gs[0].data[9] = (unsigned char)(start >> 24);
    gs[0].data[10] = (unsigned char)len; gs[0].data[11] = (unsigned char)(len >> 8);
    for (i = 12; i < GS_MAX; i++) VND(gs[0].data[i], uchar);
    gs[0].len = 12 + (long)len + 2;   /* the file is as long as the record says (the payload beyond the model's array is never read: the path ends at the S5 line) */
    gs[0].pos = 0; gs[0].is_open = 1; gs[0].fail = 0;
    gs[1].len = 0; gs[1].pos = 0; gs[1].is_open = 1; gs[1].fail = 0;
    TargFile = GS_FILE(1); g_open_which = 0;
    DestFormat = eHexFormatMotoS; ForceSegment = SegNone; MultiMode = 0; AVRLen = 3;
    RelAdr = 0; Relocate = 0; Rec5 = 1; VND(SepMoto, uchar); VASSUME(SepMoto <= 1);
    VND(MinMoto, uchar); VASSUME(MinMoto >= 1 && MinMoto <= 3);
    LineLen = VERIF_LINELEN;   /* one group per line length: the division by a symbolic line length did not finish */
    for (i = 0; i < SegCount; i++) { StartAdr[i] = 0; StopAdr[i] = 0xffffffffu; }
    VASSUME(start <= 0xffff0000u);
    FormatOccured = 0; MaxMoto = 0; MaxIntel = 0; EntryAdrPresent = False;
    g_stray = g_lines = g_bad_struct = g_data_lines = 0; Lmark = 0; Ln = 0; g_base = 0;
    g_rec_start = start; g_rec_len = len; g_next = start; g_s5_seen = 0; g_s5_val = 0; g_trailers = 0;
    g_s5_expect = (len + LineLen - 1) / LineLen;
    ProcessFile(name, 0);
    VASSERT(0, "C06: a group with S5 records requested writes its S5 record before any data line (this point is behind the cut)");
}
#endif
