"""C14 -- machine instructions encode as the instruction set defines (shared range-rejection path only)"""
from vdriver import G
LEVEL = "other"
SRC = "harness/C13/h_asmpars_sym.c"
GROUPS = []
for e, fns, uw in [("IntTypeDefs", ["asmpars_init", "RangeCheck"], 70), ("EvalStrInt_range", ["EvalStrIntExpressionWithResult", "RangeCheck", "asmpars_init"], 70)]:
    GROUPS.append(G("rng_" + e, SRC, "h_" + e, enforce=[], link=["asmdef.c", "tempresult.c", "nonzstring.c", "bpemu.c"], stubs=["stubs/gerr.c"],
                    unwind=uw, timeout=600, dfcc=False, object_bits=12, defs=["-DSTRINGSIZE=64"], functions=fns,
                    replace_calls=["EvalStrExpression:verif_EvalStrExpression"]))
TRUSTED_BASE = ["formula parser replaced by an oracle returning an arbitrary integer and flags (goto-instrument --replace-calls)"]
ASSUMPTIONS = ["each code generator passes the integer type of its field to EvalStrIntExpression (which type each passes is not checked)"]
NOT_COVERED = ["every instruction handler of code65.c, code85.c, codez80.c, codemsp.c, code16c8x.c, codeavr.c, code4004.c (opcode/operand encodings)",
               "PC-relative displacement computation"]
EXPLANATION = ("Only the shared half of the property is decided: an operand value outside the range of the integer type its field is evaluated with "
               "is rejected with an error (never silently truncated), a fitting value is passed on unchanged, and the type table holds the "
               "documented ranges. The opcode encodings of the seven instruction sets are not under contract.")
MANIFEST = dict(
    category="other",
    text="Shared range-rejection path only: the integer type table built by asmpars_init (every type below 64 bits) and the tail of "
         "EvalStrIntExpressionWithResult (fits => unchanged, outside => error and -1, first-pass placeholders masked) verified on the real code with "
         "the formula parser replaced by an oracle. The instruction encoders of the seven ISAs named in the property are NOT covered.",
    note="Kernel claim; which type each code generator requests is assumed.",
)
