"""C05 -- P2BIN writes the memory image described by the code file (p2bin.c)"""
from vdriver import G
LEVEL = "proof"
SRC = "harness/C05/h_p2bin.c"
ERRNO = ["-include", "$VERIF/include/verif_errno_shim.h"]
GROUPS = []
for gran in (1, 2, 4):
  GROUPS.append(G("pb_ProcessFile_data_g%d" % gran, SRC, "h_ProcessFile_data", enforce=[], dfcc=False, drop_unused=True, defs=["-DVERIF_GRAN=%d" % gran], link=["toolutils.c", "as_endian.c", "bpemu.c"], loops=True,
                  unwind=12, unwindset=["@ProcessFile:ProcessFile:last:3"], timeout=600, cflags=ERRNO, functions=["ProcessFile"], object_bits=12, split=16, flags=["--slice-formula"], tier="thorough" if gran == 1 else "quick",
                  bounded="input = one data record (any CPU, segment, granularity 1/2/4, address, length; copy loop under loop contract) + end record; byte mode ALL"))
for gran, m in ((1, 0), (2, 0), (4, 0), (1, 2), (2, 8), (4, 5), (1, 1), (1, 7), (2, 3)):
  GROUPS.append(G("pb_OpenTarget_g%d_%s" % (gran, ["ALL", "EVEN", "ODD", "BYTE0", "BYTE1", "BYTE2", "BYTE3", "WORD0", "WORD1"][m]), SRC, "h_OpenTarget", enforce=[], dfcc=False, drop_unused=True,
                  defs=["-DVERIF_GRAN=%d" % gran, "-DVERIF_LANE_MODE=%d" % m], tier="quick" if m in (0, 2, 8) else "thorough", link=["toolutils.c", "as_endian.c", "bpemu.c"], loops=True,
                  unwind=6, timeout=600, cflags=ERRNO, functions=["OpenTarget"], object_bits=12, flags=["--slice-formula"]))
GROUPS.append(G("pb_CloseTarget_small", "harness/C05/h_p2bin_small.c", "h_CloseTarget", enforce=[], dfcc=False, drop_unused=True, link=["toolutils.c", "as_endian.c", "bpemu.c"],
                unwind=18, timeout=600, cflags=ERRNO, functions=["CloseTarget"], object_bits=12, flags=["--slice-formula"],
                bounded="image of at most 16 bytes including the header (every byte modelled; checksum and header loops unwound)"))
GROUPS.append(G("pb_MeasureFile", SRC, "h_MeasureFile", enforce=[], dfcc=False, drop_unused=True, link=["toolutils.c", "as_endian.c", "bpemu.c"], loops=False,
                unwind=12, unwindset=["@MeasureFile:MeasureFile:last:3"], timeout=600, cflags=ERRNO, functions=["MeasureFile"], object_bits=12, flags=["--slice-formula"], split=4,
                bounded="input = one data record (any CPU, segment, granularity, address, length) + end record"))
MODES = ["ALL", "EVEN", "ODD", "BYTE0", "BYTE1", "BYTE2", "BYTE3", "WORD0", "WORD1"]
QUICK_LANES = {(2, 1), (2, 8), (4, 4)}
for gran in (1, 2, 4):
  for m in range(1, 9):
    GROUPS.append(G("pb_ProcessFile_lane_g%d_%s" % (gran, MODES[m]), SRC, "h_ProcessFile_lane", enforce=[], dfcc=False, drop_unused=True,
                    defs=["-DVERIF_GRAN=%d" % gran, "-DVERIF_LANE_MAXLEN=8", "-DVERIF_LANE_MODE=%d" % m], link=["toolutils.c", "as_endian.c", "bpemu.c"], loops=False,
                    unwind=10, unwindset=["@ProcessFile:ProcessFile:0:2", "@ProcessFile:ProcessFile:1:9", "@ProcessFile:ProcessFile:last:3"], timeout=600, cflags=ERRNO, functions=["ProcessFile", "SelectedCount", "SelectedBelow"], object_bits=12,
                    split=5, mem=8, flags=["--slice-formula", "--arrays-uf-always"], tier="quick" if (gran, m) in QUICK_LANES else "thorough",
                    bounded="-m %s, granularity %d: one data record of at most 8 bytes inside the window + end record (copy and lane loops unwound)" % (MODES[m], gran)))
GROUPS.append(G("pb_SelectedCount", SRC, "h_SelectedCount", enforce=[], dfcc=False, drop_unused=True, link=["toolutils.c", "as_endian.c", "bpemu.c"], loops=False,
                unwind=6, timeout=600, cflags=ERRNO, functions=["SelectedCount", "SelectedBelow"], object_bits=12, flags=["--slice-formula"]))
GROUPS.append(G("pb_main_measures_first", "harness/C05/h_p2bin_main.c", "h_main_measures_first", enforce=[], dfcc=False, drop_unused=True, link=["toolutils.c", "as_endian.c", "bpemu.c"],
                unwind=6, unwindset=["@MeasureFile:MeasureFile:last:3"], timeout=600, cflags=ERRNO, functions=["main", "MeasureFile"], object_bits=12, flags=["--slice-formula"],
                bounded="one input file with one data record; option parsing and initialisers are oracles; the path ends where the target is opened"))
GROUPS.append(G("ch_AddChunk_1", "harness/C05/h_chunks.c", "h_AddChunk", enforce=[], dfcc=False, drop_unused=True, link=[], stubs=["stubs/gerr.c"], unwind=5, timeout=600, object_bits=12,
                defs=["-DVERIF_CHUNKS=1"], functions=["AddChunk", "Overlap", "SetChunk", "IncChunk"], flags=["--slice-formula"],
                bounded="list of at most 1 chunk before the call, addresses and lengths below 2^32: warning, exact coverage and disjointness"))
GROUPS.append(G("ch_AddChunk_2_warn", "harness/C05/h_chunks.c", "h_AddChunk", enforce=[], dfcc=False, drop_unused=True, link=[], stubs=["stubs/gerr.c"], unwind=5, timeout=600, object_bits=12,
                defs=["-DVERIF_CHUNKS=2", "-DVERIF_WARN_ONLY"], functions=["AddChunk", "Overlap", "SetChunk", "IncChunk"], flags=["--slice-formula"],
                bounded="list of at most 2 chunks before the call, addresses and lengths below 2^32: the overlap warning only"))
TRUSTED_BASE = ["stubs/gfile.c ghost stdio model (exact position/length, one witness byte, pass-through cell, uniform-buffer ghost for memset)",
                "stubs/gfile_small.c (bounded model with every byte, CloseTarget only)", "fopen creates/truncates the target (harness sets length 0)",
                "FilterOK and AddChunk observed/oracle (FilterOK is under contract in C07; AddChunk / overlap warning not under contract)",
                "message catalogue, printf/fprintf replaced by no-op monitors"]
ASSUMPTIONS = ["record addresses do not wrap around 2^32; byte addresses of the window fit 32 bits", "granularity byte is 1, 2 or 4",
               "the image is smaller than 2 GiB (file positions are long)", "main()'s call order is under obligation only up to the creation of the image (MeasureFile before OpenTarget); ProcessFile over all inputs / CloseTarget order is not"]
NOT_COVERED = ["main: option parsing, call order after the image is created", "DeleteChunk", "CMD_ByteMode table", "more than one data record per file (record loop unwound for one data + end record)", "EraseFile"]
EXPLANATION = ("ProcessFile's copy loop is closed by a loop contract (any record length); the record loop is unwound for one data record; lane modes are "
               "bounded stand-ins on the real 4 KiB transfer buffer (records of at most 8 bytes).")
MANIFEST = dict(
    category="proof",
    text="p2bin.c on a ghost stdio model with a witness byte: ProcessFile (mode ALL, granularity 1/2/4, any window, offset, header size): the -f filter sees the "
         "CPU id; exactly the part of a selected record inside the window is copied, byte k of it to offset header + (address - start) * granularity + lane, "
         "copy loop closed by a loop contract (any length); bytes outside are untouched, the image length never changes, unselected records write nothing, "
         "the input is consumed to the next record. OpenTarget: image = zero header + exactly the number of selected byte addresses of the window, all fill "
         "value (fill loop under loop contract). MeasureFile: automatic range = lowest/highest used address, image granularity = largest seen. SelectedCount "
         "against a closed form for all nine -m modes, all 32-bit arguments. Bounded: -m lane placement on records <= 8 bytes; CloseTarget (-s checksum sums to "
         "zero, entry-address header byte order) on images <= 16 bytes.",
    note="Bounded groups are listed in the evidence and not counted as proved. Not under contract: main's call order, AddChunk (overlap warning), multi-record files. "
         "Trusted: stubs/gfile.c, stubs/gfile_small.c. Three defects found and repaired (see known_findings.json: -f on the wrong byte, lane misplacement, MaxGran with explicit range).",
    technique="contract-based deductive verification: CBMC 6.11 loop contracts (goto-instrument --apply-loop-contracts, non-DFCC) and harness-level pre/postconditions on the real p2bin.c; bounded unwinding for the lane/checksum stand-ins",
)
