/* gerr.c -- see gerr.h */
#include "stdinc.h"
#include "gerr.h"
#include "asmerr.h"
unsigned long g_err_cnt;
int           g_err_last;

void WrError(tErrorNum Num) {
    g_err_cnt++;
    g_err_last = (int)Num;
}
void WrXError(tErrorNum Num, char const* pExtError) {
    (void)pExtError;
    g_err_cnt++;
    g_err_last = (int)Num;
}
void WrXErrorPos(tErrorNum Num, char const* pExtError, const struct sLineComp* pLineComp) {
    (void)pExtError;
    (void)pLineComp;
    g_err_cnt++;
    g_err_last = (int)Num;
}
void WrStrErrorPos(tErrorNum Num, const struct sStrComp* pStrComp) {
    (void)pStrComp;
    g_err_cnt++;
    g_err_last = (int)Num;
}
