/* C05 harness: the real /repo/p2bin.c (ProcessFile, OpenTarget, CloseTarget, MeasureFile) on the
 * ghost file model; the real toolutils.c / as_endian.c / bpemu.c are linked */
#include "verif.h"
#include <stdio.h>
#include <stdlib.h>
#include <string.h>
#include <errno.h>
#include "stubs/gfile.c"
#include "contracts/p2bin.contracts.h"
#include "fileformat.h"
#include "addrspace.h"
#include "nlmessages.h"
#include "toolutils.h"
#include "ioerrs.h"
#include "chunks.h"

long g_src0, g_tgt0, g_cplen, g_src_end, g_tgt_end; int g_wmatch;
static int g_exit_code;
#undef errno
#define errno verif_errno
static char msg_txt[2];
char* getmessage(int Num) { (void)Num; return msg_txt; }
char* catgetmessage(PMsgCat Catalog, int Num) { (void)Catalog; (void)Num; return msg_txt; }
char* GetErrorMsg(int number) { (void)number; return msg_txt; }
static int mon_print0(void) { return 0; }
#define fprintf(...) mon_print0()
#define printf(...) mon_print0()
#define fputs(a, b) mon_print0()
static int g_open_which;
static FILE* mon_fopen(void) { return GF_FILE(g_open_which); }
#define fopen(n, m) mon_fopen()
/* -f decision: oracle keyed by what is passed (the CPU id must be passed, see the harness) */
static int g_doit; static int g_filter_arg;
static Boolean verif_FilterOK(Byte Header) { g_filter_arg = Header; return (Boolean)(g_doit != 0); }
#define FilterOK(h) verif_FilterOK(h)
/* chunk bookkeeping (overlap warning): observed */
static unsigned long g_chunk_start, g_chunk_len; static int g_chunk_calls, g_chunk_ret;
static Boolean verif_AddChunk(ChunkList* NChunk, LargeWord NewStart, LargeWord NewLen, Boolean Warn) {
    (void)NChunk; (void)Warn; g_chunk_calls++; g_chunk_start = NewStart; g_chunk_len = NewLen; return (Boolean)(g_chunk_ret != 0);
}
#define AddChunk(a, b, c, d) verif_AddChunk((a), (b), (c), (d))
#define main p2bin_main
#include "contracts/loop_defaults.h"
#include "p2bin.c" /* the real /repo/p2bin.c */
#undef main
#undef fopen
#undef FilterOK
#undef AddChunk

static void mk_file(int i) {
    VND(gf[i].len, long); VND(gf[i].pos, long); VND(gf[i].w_off, long); VND(gf[i].w_val, uchar);
    VASSUME(gf[i].len >= 0 && gf[i].len <= 0x7fffffff && gf[i].pos >= 0 && gf[i].pos <= gf[i].len && gf[i].w_off >= 0);
    gf[i].is_open = 1; gf[i].fail_writes = 0; gf[i].n_write_calls = 0; gf[i].n_read_calls = 0; gf[i].bytes_written = 0; gf[i].io_error = 0;
}

/* one data record (byte mode ALL) + end record, arbitrary window / header / offset */
void h_ProcessFile_data(void) {
    Byte cpu, seg, gran; unsigned long start, offs; unsigned len; char name[2]; long tlen0; unsigned char old;
    unsigned long istart, estart, estop; int sel; long hdr;
    gf_reset();
    mk_file(0); mk_file(1);
    gf[0].pos = 0;
    gf_noscript_ptr = Buffer; gf_cell_mode = 1;
    TargFile = GF_FILE(1); g_open_which = 0;
    QuietMode = True; msg_txt[0] = 'm'; msg_txt[1] = 0; name[0] = 'f'; name[1] = 0; g_exit_code = -1;
    VND(cpu, uchar); VND(seg, uchar); VND(gran, uchar); VND(start, ulong); VND(len, uint); VND(offs, ulong);
    VASSUME(start <= 0xffffffffu && len <= 0xffff && offs <= 0xffffffffu);
#ifdef VERIF_GRAN
    gran = VERIF_GRAN;
#endif
    VASSUME(gran == 1 || gran == 2 || gran == 4);            /* granularities the tools define */
    VND(g_doit, int); VND(g_chunk_ret, int);
    VND(StartAdr, uint); VND(StopAdr, uint); VND(StartHeader, schar); VND(ValidSegment, uchar);
    VASSUME(StartAdr <= StopAdr && StartHeader >= -4 && StartHeader <= 4);
    SizeDiv = 1; ANDMask = 0; ANDEq = 0;                      /* -m ALL */
    VND(EntryAdrPresent, uchar); VND(EntryAdr, uint);
    gf_script_i = 0; gf_script[0] = FileMagic; gf_script[1] = FileHeaderDataRec; gf_script[2] = cpu; gf_script[3] = seg; gf_script[4] = gran;
    gf_script[5] = start; gf_script[6] = len; gf_script[7] = FileHeaderEnd; gf_script_n = 8;
    /* record complete in the file */
    VASSUME(12 + (long)len < gf[0].len - 1);
    /* the addresses of the record do not wrap around 2^32 (such records cannot come from the assembler) */
    VASSUME(start + offs <= 0xffffffffu && len / gran >= 1 && start + offs + len / gran - 1 <= 0xffffffffu);
    hdr = StartHeader < 0 ? -StartHeader : StartHeader;
    istart = start + offs;
    estart = istart > StartAdr ? istart : StartAdr;
    estop = (istart + len / gran - 1) < StopAdr ? (istart + len / gran - 1) : StopAdr;
    sel = g_doit && seg == ValidSegment && estop >= estart;
    /* the target is large enough for the window (OpenTarget's job, see h_OpenTarget) */
    VASSUME(gf[1].len >= hdr + ((long)StopAdr - (long)StartAdr + 1) * gran);
    g_src0 = sel ? 12 + (long)(estart - istart) * gran : 12;
    g_tgt0 = sel ? hdr + (long)(estart - StartAdr) * gran : hdr;
    g_cplen = sel ? (long)(estop + 1 - estart) * gran : 0;
    VASSUME(g_cplen <= 0xffff);
    /* witnesses: byte k of the copied part in source and target, or any other target byte */
    { long k; VND(k, long); VASSUME(k >= 0 && k < 0x10000); gf[0].w_off = g_src0 + k; }
    g_src_end = g_src0 + g_cplen; g_tgt_end = g_tgt0 + g_cplen;
    /* lemma (asserted, then assumed): the copied part lies inside the record's payload, hence inside the source file */
    VASSERT(g_src0 >= 12 && g_src_end <= 12 + (long)len, "C05 lemma: the part of a record that falls into the window lies inside its payload");
    VASSUME(g_src0 >= 12 && g_src_end <= 12 + (long)len && g_src_end < gf[0].len);
    g_wmatch = (gf[0].w_off - g_src_end == gf[1].w_off - g_tgt_end);
    tlen0 = gf[1].len; old = gf[1].w_val;
    g_chunk_calls = 0; g_filter_arg = -1;
    ProcessFile(name, offs);
    VPOST(g_filter_arg == cpu, "C05: the -f filter is applied to the record's CPU id");
    VPOST(gf[1].len == tlen0, "C05: copying a record never changes the length of the image");
    if (sel) {
        if (gf[1].w_off >= g_tgt0 && gf[1].w_off < g_tgt0 + g_cplen) {
            if (g_wmatch) { VPOST(gf[1].w_val == gf[0].w_val, "C05: the byte at address A, lane b of a selected record is at offset header + (A-start)*gran + b of the image"); VREACH("copied"); }
        } else { VPOST(gf[1].w_val == old, "C05: bytes outside the record's part of the window are not written"); VREACH("outside"); }
        VPOST(g_chunk_calls == 1 && g_chunk_start == estart && g_chunk_len == estop - estart + 1, "C05: the used-address bookkeeping (overlap warning) sees exactly the placed range");
    } else {
        VPOST(gf[1].w_val == old && gf[1].n_write_calls == 0, "C05: a record that is filtered out, in another segment or outside the window writes nothing");
        VREACH("notselected");
    }
    VPOST(gf[0].pos == 12 + (long)len + 1, "C05: the input is consumed exactly up to the next record");
}
