"""C07 -- PBIND conserves records, PLIST reports them (toolutils.c, pbind.c, plist.c)"""
from vdriver import G
LEVEL = "proof"
GROUPS = []
TU = "harness/C07/h_toolutils.c"
LINK = ["as_endian.c", "bpemu.c"]
GROUPS.append(G("tu_FilterOK", TU, "h_FilterOK", enforce=["FilterOK"], link=LINK, loops=True, unwind=258, timeout=300))
GROUPS.append(G("tu_FilterOK_reject", TU, "h_FilterOK_reject", enforce=[], link=LINK, unwind=258, timeout=300, functions=["FilterOK"],
                bounded="the filter list has at most 256 entries by construction (array size); the reject direction unwinds them all"))
GROUPS.append(G("tu_SkipRecord", TU, "h_SkipRecord", enforce=["SkipRecord"], link=LINK, unwind=12, timeout=300, flags=["--signed-overflow-check"]))
GROUPS.append(G("tu_ReadRecordHeader", TU, "h_ReadRecordHeader", enforce=[], link=LINK, unwind=12, timeout=300, functions=["ReadRecordHeader", "Granularity"]))
GROUPS.append(G("tu_ReadRecordHeader_trunc", TU, "h_ReadRecordHeader_trunc", enforce=[], link=LINK, unwind=12, timeout=300, functions=["ReadRecordHeader"], defs=["-DVERIF_EXIT_REACH"]))
GROUPS.append(G("tu_WriteRecordHeader", TU, "h_WriteRecordHeader", enforce=[], link=LINK, unwind=12, timeout=300, functions=["WriteRecordHeader", "Granularity"]))
GROUPS.append(G("tu_CMD_FilterList", TU, "h_CMD_FilterList", enforce=[], link=LINK, loops=True, unwind=258, unwindset=["@h_CMD_FilterList:CMD_FilterList:last:2", "@CMD_FilterList:CMD_FilterList:last:2"], timeout=600, dfcc=False, drop_unused=True, functions=["CMD_FilterList"], object_bits=12, defs=["-DVERIF_FILTERLIST"], flags=["--slice-formula"], split=6,
                bounded="one CPU id per call (the comma loop is unwound once); the id's value is an oracle for the number parser"))
GROUPS.append(G("tu_ReadRelocInfo", TU, "h_ReadRelocInfo", enforce=[], link=LINK, unwind=8, timeout=600, dfcc=False, drop_unused=True, functions=["ReadRelocInfo", "DestroyRelocInfo"], object_bits=12,
                defs=["-DVERIF_FILTERLIST"], bounded="at most one relocation and one export entry, string table of at most 4 bytes"))
PB = "harness/C07/h_pbind.c"
ERRNO = ["-include", "$VERIF/include/verif_errno_shim.h"]
GROUPS.append(G("pb_ProcessFile_data", PB, "h_ProcessFile_data", enforce=[], replace=[], dfcc=False, drop_unused=True, link=["toolutils.c", "as_endian.c", "bpemu.c"],
                loops=True, unwind=40, unwindset=["@ProcessFile:ProcessFile:last:3"], timeout=900, cflags=ERRNO, functions=["ProcessFile"], object_bits=12, split=8, flags=["--slice-formula"],
                bounded="input = one data record of arbitrary header form, address, length (copy loop under loop contract: unbounded payload) followed by the end record"))
GROUPS.append(G("pb_Open_Close_Target", PB, "h_Open_Close_Target", enforce=[], dfcc=False, drop_unused=True, link=["toolutils.c", "as_endian.c", "bpemu.c"], unwind=20, timeout=600, cflags=ERRNO,
                functions=["OpenTarget", "CloseTarget"], object_bits=12, flags=["--slice-formula"]))
for gran in (0, 1, 2, 4):
    GROUPS.append(G("pl_ProcessSingle_data_g%d" % gran, "harness/C07/h_plist.c", "h_ProcessSingle_data", enforce=[], dfcc=False, drop_unused=True, defs=["-DVERIF_GRAN=%d" % gran],
                    link=["toolutils.c", "as_endian.c", "bpemu.c", "addrspace.c"], unwind=4, timeout=600, cflags=ERRNO, functions=["ProcessSingle"], object_bits=12, flags=["--slice-formula"], split=4,
                    noreach=(gran == 0),
                    bounded="input = one data record (any CPU id, segment, address, length; granularity %d%s) + end record with a creator string of at most 2 characters" % (gran, " = invalid, must be rejected" if gran == 0 else "")))
GROUPS.append(G("pl_ProcessSingle_reloc_truncated", "harness/C07/h_plist.c", "h_ProcessSingle_reloc_truncated", enforce=[], dfcc=False, drop_unused=True,
                link=["toolutils.c", "as_endian.c", "bpemu.c", "addrspace.c"], unwind=4, timeout=600, cflags=ERRNO, functions=["ProcessSingle", "ReadRelocInfo"], object_bits=12, flags=["--slice-formula"], noreach=True,
                bounded="a relocation-info record announcing one entry, cut at every position inside its counts / first entry"))
GROUPS.append(G("pl_main_totals", "harness/C07/h_plist.c", "h_main_totals", enforce=[], dfcc=False, drop_unused=True,
                link=["toolutils.c", "as_endian.c", "bpemu.c", "addrspace.c"], unwind=4, unwindset=["@plist_main:plist_main:%d:13" % i for i in range(6)], timeout=600, cflags=ERRNO,
                functions=["main", "ProcessSingle"], object_bits=12, flags=["--slice-formula"], split=4,
                bounded="one input file holding one byte-granular data record + end record; option parsing and initialisers are oracles"))
TRUSTED_BASE = ["stubs/gfile.c: ghost stdio model (position/length exact, one witness byte, short reads/failed writes as oracle)",
                "message catalogue and printf/fprintf replaced by no-op monitors", "exit() monitor"]
ASSUMPTIONS = ["files are shorter than 2 GiB (long is 64 bit; positions handled as long)"]
NOT_COVERED = ["entry-address and relocation records", "CMD_FilterList option parsing", "files with more than one data record (record loops unwound)"]
EXPLANATION = ""

MANIFEST = dict(
    category="proof",
    text="toolutils.c record helpers (ReadRecordHeader/WriteRecordHeader field-by-field against the file bytes, SkipRecord never moves "
         "backwards, FilterOK with a loop contract over the filter list), pbind.c's ProcessFile (a passing data record is appended with "
         "unchanged header, address, length and payload -- copy loop closed by a loop contract, so any payload length; a filtered record "
         "writes nothing; the input is consumed exactly to the next record) and plist.c (ProcessSingle prints one line per record with the CPU "
         "family of its CPU id, its segment name, true start, byte length and last address = start + length/granularity - 1, adds the length to that "
         "segment's total only, rejects invalid segment/granularity/length as format errors; main prints each total through a numeric conversion) "
         "are verified on the real code over a ghost stdio model with a witness byte.",
    note="Bounded: pbind and plist input = one data record + end record (record loops unwound 3x); the -f decision is an oracle in pbind's harness; plist's "
         "family table lookup and main's option parsing are oracles. pbind/plist obligations use CBMC's non-DFCC instrumentation. Not under contract: pbind "
         "OpenTarget/CloseTarget, entry records, relocation records. Trusted: stubs/gfile.c (exact position/length, one witness byte, pass-through cell), printf monitors.",
)
