"""C04 -- the code file contains exactly the program's bytes at the program's addresses (asmcode.c)"""
from vdriver import G
LEVEL = "proof"
SRC = "harness/C04/h_asmcode.c"
LINK = ["asmdef.c", "as_endian.c", "bpemu.c", "tempresult.c"]
STUBS = ["stubs/gerr.c"]
GROUPS = []
def g(entry, fns, **kw):
    GROUPS.append(G("cf_" + entry, SRC, "h_" + entry, enforce=kw.pop("enforce", []), replace=kw.pop("replace", []), dfcc=kw.pop("dfcc", False), link=LINK, stubs=STUBS,
                    unwind=kw.pop("unwind", 14), timeout=kw.pop("timeout", 900), functions=fns, object_bits=kw.pop("object_bits", 10), **kw))
for gran in (1, 2, 4):
    for e in ("WriteBytes_fit_new", "WriteBytes_fit_old", "WriteBytes_fit_hdr"):
        g(e, ["WriteBytes"], defs=["-DVERIF_GRAN=%d" % gran], tier="quick", timeout=300)
        GROUPS[-1]["name"] = "cf_%s_g%d" % (e, gran)
g("NewRecord_empty", ["NewRecord", "WrRecHeader", "FlushBuffer"]); g("NewRecord_full", ["NewRecord", "WrRecHeader", "FlushBuffer"])
for gran in (1, 2, 4):
    g("WriteBytes_overflow", ["WriteBytes", "NewRecord"], defs=["-DVERIF_GRAN=%d" % gran], timeout=300); GROUPS[-1]["name"] = "cf_WriteBytes_overflow_g%d" % gran
g("DreheCodes", ["DreheCodes"], unwind=18, timeout=300, bounded="lines of at most 16 bytes, listing word size 1/2/4")
g("DreheCodes_any", ["DreheCodes"], unwind=14, timeout=600, loops=True, pre_unwind=["DreheCodes.1:5"])
g("OpenFile", ["OpenFile", "NewRecord"]); g("CloseFile", ["CloseFile", "NewRecord"], unwind=16)
GROUPS.append(G("as_WriteCode", "harness/C04/h_as_writecode.c", "h_WriteCode", enforce=[], link=["asmdef.c"], stubs=STUBS, unwind=14, timeout=600,
                functions=["WriteCode"], object_bits=12, dfcc=False, defs=["-DSTRINGSIZE=64"]))
TRUSTED_BASE = ["stubs/gfile.c ghost stdio model (witness byte)", "Granularity()/ProgCounter() oracles", "ChkIO: a failed write ends the run"]
ASSUMPTIONS = ["no relocatable segments (PatchList == ExportList == NULL)", "CodeLen * granularity <= 65535 (16-bit ErgLen)"]
NOT_COVERED = ["RetractWords (TMS320 parallel instructions)", "relocation / export records (WrPatches)", "WriteBytes with TurnWords on (DreheCodes itself is under obligation)", "code stuffing of WriteCode"]
EXPLANATION = ""

MANIFEST = dict(
    category="proof",
    text="The code-file writer of asmcode.c is verified on the real code over a ghost stdio model with a witness byte, for every writer state "
         "satisfying the representation invariant (buffer fill, record position, length-so-far, file length): WriteBytes appends byte j of the "
         "line as payload byte LenSoFar+j (all three granularities, any line length up to 65535), never touches earlier payload or headers, and "
         "starts a new record at the line's address when the 64 KiB record limit would be exceeded; NewRecord patches the length of the closed "
         "record and writes a consistent header (or reuses an empty record in place); OpenFile writes magic + first header; CloseFile writes entry "
         "record, end marker and creator string. WriteCode (as.c) hands the line to the writer at its own address, reserves via NewRecord(address "
         "behind the gap) and advances the counter by the line's length. DreheCodes (word turning on TurnWords targets) moves byte j to j ^ (word size - 1) for lines of every length (loop contracts). The per-statement contracts compose by the induction in DESIGN.md.",
    note="Instrumentation: CBMC without DFCC (no function contracts needed; obligations are harness assertions over the real functions). memcpy is "
         "observed by a monitor (range check, witness byte, watched earlier byte). Assumed: no relocatable segments (PatchList/ExportList empty), "
         "WriteBytes itself is run with TurnWords == 0 (DreheCodes is verified on its own), no instruction stuffing (StopfZahl == 0), writes do not fail.",
)
