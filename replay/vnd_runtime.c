/* vnd_runtime.c -- native replay runtime: feeds the input values of a CBMC
 * counterexample to the same harness compiled with gcc + ASan/UBSan.
 * Input file: one line per value, "file:line:lhs=BINARY" in trace order.       */
#include <ctype.h>
#include <stdio.h>
#include <stdlib.h>
#include <string.h>
#include <fcntl.h>
#include <unistd.h>
/* The ghost stdio model (stubs/gfile.c) replaces fread/fwrite/fclose/... in the replay binary as well, so this
 * runtime reads its input with open/read/close and reports with dprintf (neither goes through those symbols). */
#define fprintf(stream, ...) dprintf(2, __VA_ARGS__)

typedef struct {
    char               file[96];
    int                line;
    char               lhs[160];
    unsigned long long bits;
    int                nbits;
    int                used;
} entry_t;

static entry_t* entries;
static size_t   n_entries;

static void norm(char* d, char const* s, size_t cap) {
    size_t k = 0;
    for (; *s && k + 1 < cap; s++) {
        if (isspace((unsigned char)*s))
            continue;
        if (s[0] == '-' && s[1] == '>') {
            d[k++] = '.';
            s++;
            continue;
        }
        if (*s == '(' || *s == ')' || *s == '*' || *s == '&')
            continue;
        d[k++] = *s;
    }
    d[k] = 0;
}

static char const* base(char const* f) {
    char const* p = strrchr(f, '/');
    return p ? p + 1 : f;
}

static void load(char const* path) {
    int    fd = open(path, O_RDONLY);
    char*  all = NULL;
    size_t cap = 0, len = 0;
    char*  buf;
    if (fd < 0) {
        fprintf(stderr, "replay: cannot open %s\n", path);
        exit(2);
    }
    for (;;) {
        ssize_t r;
        if (len + 65536 + 1 > cap) {
            cap = (cap ? cap * 2 : 1 << 20);
            all = realloc(all, cap);
        }
        r = read(fd, all + len, 65536);
        if (r <= 0)
            break;
        len += (size_t)r;
    }
    close(fd);
    all[len] = 0;
    for (buf = all; buf && *buf;) {
        char* nl = strchr(buf, '\n');
        char *c1, *c2, *eq, *next = nl ? nl + 1 : NULL;
        if (nl)
            *nl = 0;
        c1 = strchr(buf, ':');
        c2 = c1 ? strchr(c1 + 1, ':') : NULL;
        eq = strrchr(buf, '=');
        if (c1 && c2 && eq && eq > c2) {
            entries = realloc(entries, (n_entries + 1) * sizeof(entry_t));
            entry_t* e = &entries[n_entries++];
            memset(e, 0, sizeof *e);
            *c1 = 0;
            *c2 = 0;
            *eq = 0;
            snprintf(e->file, sizeof e->file, "%s", buf);
            e->line = atoi(c1 + 1);
            norm(e->lhs, c2 + 1, sizeof e->lhs);
            for (char* p = eq + 1; *p == '0' || *p == '1'; p++) {
                e->bits = (e->bits << 1) | (unsigned)(*p - '0');
                e->nbits++;
            }
        }
        buf = next;
    }
    free(all);
}

static entry_t* find(char const* lhs, char const* file, int line) {
    char   n[160];
    size_t i;
    norm(n, lhs, sizeof n);
    for (i = 0; i < n_entries; i++) {
        entry_t* e = &entries[i];
        if (!e->used && e->line == line && !strcmp(e->file, base(file)) && !strcmp(e->lhs, n)) {
            e->used = 1;
            return e;
        }
    }
    /* fall back: same line, last path component of the lhs matches */
    for (i = 0; i < n_entries; i++) {
        entry_t* e = &entries[i];
        if (!e->used && e->line == line && !strcmp(e->file, base(file))) {
            char const* a = strrchr(e->lhs, '.');
            char const* b = strrchr(n, '.');
            a = a ? a + 1 : e->lhs;
            b = b ? b + 1 : n;
            if (!strcmp(a, b)) {
                e->used = 1;
                return e;
            }
        }
    }
    /* fall back: array element / pointer target assigned in a loop (the native text is "a[i]", the trace says
     * "a[3]"): same line, same base name, first entry not used yet (trace order = execution order) */
    for (i = 0; i < n_entries; i++) {
        entry_t* e = &entries[i];
        if (!e->used && e->line == line && !strcmp(e->file, base(file)) && strncmp(e->lhs, "return_value", 12)) {
            size_t k = strcspn(n, "[");
            if (k > 0 && !strncmp(e->lhs, n, k) && (e->lhs[k] == '[' || e->lhs[k] == 0)) {
                e->used = 1;
                return e;
            }
        }
    }
    return NULL;
}

unsigned long long vnd_next(char const* lhs, char const* file, int line, int is_fp) {
    entry_t* e = find(lhs, file, line);
    (void)is_fp;
    if (!e) {
        fprintf(stderr, "replay: no value for %s at %s:%d, using 0\n", lhs, base(file), line);
        return 0;
    }
    fprintf(stderr, "replay: %s:%d %s = 0x%llx\n", base(file), line, lhs, e->bits);
    /* sign extension is done by the cast at the use site when nbits matches the type */
    if (e->nbits > 0 && e->nbits < 64 && ((e->bits >> (e->nbits - 1)) & 1)) {
        /* keep raw bits; the destination cast truncates to its own width */
    }
    return e->bits;
}

double vnd_next_fp(char const* lhs, char const* file, int line) {
    entry_t* e = find(lhs, file, line);
    double   d = 0;
    if (!e) {
        fprintf(stderr, "replay: no value for %s at %s:%d, using 0.0\n", lhs, base(file), line);
        return 0.0;
    }
    if (e->nbits == 32) {
        float    f;
        unsigned u = (unsigned)e->bits;
        memcpy(&f, &u, 4);
        d = f;
    } else {
        memcpy(&d, &e->bits, 8);
    }
    fprintf(stderr, "replay: %s:%d %s = %.17g (0x%llx)\n", base(file), line, lhs, d, e->bits);
    return d;
}

void vnd_bytes(void* p, size_t n, char const* lhs, char const* file, int line) {
    size_t         i, hits = 0;
    unsigned char* b = p;
    (void)lhs;
    memset(p, 0, n);
    for (i = 0; i < n_entries; i++) {
        entry_t* e = &entries[i];
        if (e->line == line && !strcmp(e->file, base(file))) {
            char const* br = strrchr(e->lhs, '[');
            if (br) {
                unsigned long idx = strtoul(br + 1, NULL, 10);
                if (idx < n) {
                    b[idx] = (unsigned char)e->bits;
                    hits++;
                }
            }
        }
    }
    fprintf(stderr, "replay: %s:%d %zu bytes, %zu from the counterexample\n", base(file), line, n, hits);
}

void vnd_fail(char const* kind, char const* msg, char const* file, int line) {
    if (!strcmp(kind, "ASSUME")) {
        fprintf(stderr, "replay: assumption not met natively (%s) at %s:%d\n", msg, base(file), line);
        exit(77);
    }
    fprintf(stderr, "REPLAY-FAIL: %s at %s:%d\n", msg, base(file), line);
    exit(1);
}

#ifndef VERIF_ENTRY
#    error "VERIF_ENTRY must name the harness entry"
#endif
void VERIF_ENTRY(void);

int main(int argc, char** argv) {
    if (argc < 2) {
        fprintf(stderr, "usage: replay <inputs.txt>\n");
        return 2;
    }
    load(argv[1]);
    VERIF_ENTRY();
    fprintf(stderr, "replay: harness completed, all checks passed natively\n");
    return 0;
}
