/* force-included (-include) into real translation units that are linked next to a harness
 * using stubs/gfile.c:
 *  - errno becomes the ghost variable the file model sets;
 *  - printf/fprintf (variadic: DFCC cannot pass its write set through them) become a
 *    fixed-arity no-op; message text is never part of an obligation. */
#include <errno.h>
#include <stdio.h>
#undef errno
extern int verif_errno;
#define errno verif_errno
static inline int verif_print0(void) { return 0; }
#define fprintf(...) verif_print0()
#define printf(...) verif_print0()
