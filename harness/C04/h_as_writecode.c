/* C04/C10/C19 harness: WriteCode of the real /repo/as.c -- the one place where a line's code
 * leaves for the code file, the debug info and the program counter */
#include "verif.h"
#include <stdio.h>
#include <string.h>
#include "stdinc.h"
#include "asmdef.h"
#include "asmsub.h"
#include "asmcode.h"
#include "asmstructs.h"
#include "stubs/gerr.h"

/* call log of the callees (ghost) */
static int                g_bk_calls, g_nr_calls, g_wb_calls, g_bump_calls, g_order_ok;
static unsigned long long g_bk_pc, g_nr_arg, g_wb_pc, g_pc0;
static long               g_bk_len, g_wb_len, g_bump_len;
static unsigned           g_bk_seg, g_gran;
static int                g_chkpc;

Word      Granularity(void) { return (Word)g_gran; }
LargeWord ProgCounter(void) { return PCs[ActPC]; }
LargeWord EProgCounter(void) { return PCs[ActPC] + Phases[ActPC]; }
static Boolean verif_ChkPC(LargeWord Addr) { (void)Addr; return (Boolean)(g_chkpc != 0); }
void      BookKeeping(void) { g_bk_calls++; g_bk_pc = PCs[ActPC]; g_bk_len = CodeLen; g_bk_seg = ActPC; if (g_wb_calls || g_nr_calls) g_order_ok = 0; }
void      NewRecord(LargeWord NStart) { g_nr_calls++; g_nr_arg = NStart; }
void      WriteBytes(void) { g_wb_calls++; g_wb_pc = PCs[ActPC]; g_wb_len = CodeLen; }
void      BumpStructLength(PStructRec StructRec, LongInt Length) { (void)StructRec; g_bump_calls++; g_bump_len = Length; }

static int mon0(void) { return 0; }
#define printf(...) mon0()
#define fprintf(...) mon0()
#define main as_main
#include "contracts/loop_defaults.h"
#include "as.c" /* the real /repo/as.c */
#undef main

static TStructStack g_ss;
static TStructRec   g_sr;

void h_WriteCode(void) {
    unsigned long long pc0; long n; unsigned long ec; Boolean dp, co;
    PCs = malloc(SegCountPlusStruct * sizeof(LargeWord));
    Phases = malloc(SegCountPlusStruct * sizeof(LargeWord));
    VASSUME(PCs && Phases);
    VND(ActPC, uchar); VASSUME(ActPC < SegCountPlusStruct);
    VND(PCs[ActPC], u64); VND(Phases[ActPC], u64);
    VND(CodeLen, int); VASSUME(CodeLen >= 0 && CodeLen <= 65535);
    VND(DontPrint, uchar); VND(CodeOutput, uchar); VASSUME(DontPrint <= 1 && CodeOutput <= 1);
    StopfZahl = 0; /* no stuffing (targets with instruction padding: separate bounded group) */
    VND(g_gran, uint); VASSUME(g_gran == 1 || g_gran == 2 || g_gran == 4);
    VND(g_chkpc, int);
    ChkPC = verif_ChkPC;
    VND(g_sr.IsUnion, uchar); VASSUME(g_sr.IsUnion <= 1);
    g_ss.StructRec = &g_sr; g_ss.Next = NULL; StructStack = &g_ss;
    VND(PCsUsed[ActPC], uchar);
    VND(g_err_cnt, ulong); VASSUME(g_err_cnt < 1000000);
    g_bk_calls = g_nr_calls = g_wb_calls = g_bump_calls = 0; g_order_ok = 1;
    pc0 = PCs[ActPC]; n = CodeLen; ec = g_err_cnt; dp = DontPrint; co = CodeOutput;
    WriteCode();
    if (ActPC != StructSeg && !g_chkpc && n != 0) {
        VPOST(g_err_cnt == ec + 1 && PCs[ActPC] == pc0 && !g_bk_calls && !g_nr_calls && !g_wb_calls, "C10: code beyond the address space is an error and nothing is emitted");
        VREACH("overflow");
    } else if (ActPC != StructSeg) {
        VPOST(PCs[ActPC] == pc0 + (unsigned long long)n, "C10: the load address advances by the line's length");
        VPOST(g_bk_calls == ((!dp && n > 0) ? 1 : 0) && (!g_bk_calls || (g_bk_pc == pc0 && g_bk_len == n && g_bk_seg == ActPC)) && g_order_ok,
              "C19: debug/usage bookkeeping sees the line's segment, start address and length, before the counter moves");
        if (co && dp) { VPOST(g_nr_calls == 1 && g_wb_calls == 0 && g_nr_arg == pc0 + (unsigned long long)n, "C04: a reservation starts a new record at the address behind it"); VREACH("reserve"); }
        else if (co) { VPOST(g_wb_calls == 1 && g_nr_calls == 0 && g_wb_pc == pc0 && g_wb_len == n, "C04: emitted code is written at the line's address, with the line's length"); VREACH("emit"); }
        else { VPOST(!g_wb_calls && !g_nr_calls, "C04: without code output nothing is written"); VREACH("nooutput"); }
        VPOST(!co || PCsUsed[ActPC], "C10: the segment is marked used");
    } else {
        VPOST(!g_wb_calls && !g_nr_calls && !g_bk_calls, "C10: a STRUCT/UNION body emits no code");
        VPOST(!(n != 0 && !dp) || g_err_cnt == ec + 1, "C10: code inside a structure definition is an error");
        if (g_sr.IsUnion) { VPOST(PCs[ActPC] == 0 && CodeLen == 0 && g_bump_calls == 1 && g_bump_len == n, "C10: union members all start at offset 0, the union grows to the largest"); VREACH("union"); }
        else { VPOST(PCs[ActPC] == pc0 + (unsigned long long)n, "C10: a structure field advances the offset by its size"); VREACH("struct"); }
    }
}
