/* Contracts for kernels of /repo/asmpars.c (C08, C09, C13, C14, C01). */
#ifndef ASMPARS_CONTRACTS_H
#define ASMPARS_CONTRACTS_H
#include "stdinc.h"
#include "asmpars.h"
#include "stubs/gerr.h"
#endif
