/* Contracts for the byte-placing helpers of /repo/motpseudo.c (property C09).
 *
 * The Motorola-style DC.x statements place each value most significant byte first.
 * The code buffer is addressed as bytes (listing granularity 1) or as host words
 * (granularity 2); on the little-endian host the logical (big-endian) byte p of the
 * buffer lives at BAsmCode[p ^ 1] in word mode and at BAsmCode[p] in byte mode.
 * Ghost: g_listgran (what ListGran() returns), witness byte index gk_j, witness
 * "other" position gk_q with its entry value g_q_val.
 */
#ifndef MOTPSEUDO_CONTRACTS_H
#define MOTPSEUDO_CONTRACTS_H
#include "stdinc.h"
#include "asmdef.h"
#include "stubs/gerr.h"

extern unsigned g_listgran, gk_j, gk_q;
extern unsigned g_q_val;
extern unsigned long g_o_codelen;

#define PHYS(p)          ((g_listgran == 1) ? (p) : ((p) ^ 1u))
#define BEBYTE(v, n, j)  ((unsigned char)(((unsigned long long)(v) >> (8u * ((n) - 1u - (j)))) & 0xffu))
#define LOGBYTE(p)       (BAsmCode[PHYS(p)])

/* common shape: n bytes appended at the (even, in word mode) entry position */
#define ENTER_PRE(n)                                                                  \
    __CPROVER_requires(g_listgran == 1 || g_listgran == 2)                            \
    __CPROVER_requires(g_o_codelen == CodeLen && CodeLen + (n) <= MaxCodeLen && MaxCodeLen <= 65535) \
    __CPROVER_requires(g_listgran == 1 || (CodeLen & 1) == 0)                         \
    __CPROVER_requires(gk_j < (n) && gk_q < MaxCodeLen && g_q_val == BAsmCode[gk_q])
#define ENTER_POST(n, bytej)                                                          \
    __CPROVER_ensures(CodeLen == g_o_codelen + (n))                                   \
    __CPROVER_ensures(LOGBYTE(g_o_codelen + gk_j) == (bytej))                         \
    /* nothing outside the n appended bytes changes */                                \
    __CPROVER_ensures((PHYS(gk_q) >= g_o_codelen && PHYS(gk_q) < g_o_codelen + (n)) || BAsmCode[gk_q] == g_q_val) \
    __CPROVER_assigns(CodeLen, __CPROVER_object_whole(BAsmCode))

#define F2(p) ((unsigned long long)(p)[0])
#define F4(p) (((unsigned long long)(p)[1] << 16) | (p)[0])
#define F8(p) (((unsigned long long)(p)[3] << 48) | ((unsigned long long)(p)[2] << 32) | ((unsigned long long)(p)[1] << 16) | (p)[0])
/* 96-bit extended: exponent word, two zero bytes, 64-bit significand */
#define F12BYTE(p, j) ((j) < 2 ? BEBYTE((p)[4], 2, (j)) : (j) < 4 ? 0 : BEBYTE(F8(p), 8, (j) - 4))

/* ---- DecodeMotoDC: callee CutRep replaced by this (assumed) contract: it hands back an
 * argument text (either "?" or a value expression) and an arbitrary repetition count */
#include "strcomp.h"
extern char     g_txt_q[2], g_txt_v[2];
extern int      g_rep, g_cut_ok;
#ifdef VERIF_CBMC
static Boolean CutRep(tStrComp* pDest, tStrComp const* pSrc, LongInt* pErg, tSymbolFlags* pFlags)
    __CPROVER_ensures(pDest->str.p_str == g_txt_q || pDest->str.p_str == g_txt_v)
    __CPROVER_ensures(*pErg == g_rep && *pFlags == eSymbolFlag_None)
    __CPROVER_ensures(__CPROVER_return_value == (g_cut_ok != 0))
    __CPROVER_assigns(*pDest, *pErg, *pFlags);
#endif

#ifdef VERIF_CBMC
static void EnterWord(LargeWord w)    ENTER_PRE(2) ENTER_POST(2, BEBYTE(w & 0xffff, 2, gk_j));
static void EnterLWord(LargeWord l)   ENTER_PRE(4) ENTER_POST(4, BEBYTE(l & 0xffffffffull, 4, gk_j));
static void EnterQWord(LargeWord q)   ENTER_PRE(8) ENTER_POST(8, BEBYTE(q, 8, gk_j));
static void EnterIEEE2(Word* pField)  ENTER_PRE(2) ENTER_POST(2, BEBYTE(F2(pField), 2, gk_j));
static void EnterIEEE4(Word* pField)  ENTER_PRE(4) ENTER_POST(4, BEBYTE(F4(pField), 4, gk_j));
static void EnterIEEE8(Word* pField)  ENTER_PRE(8) ENTER_POST(8, BEBYTE(F8(pField), 8, gk_j));
static void EnterIEEE10(Word* pField) ENTER_PRE(12) ENTER_POST(12, F12BYTE(pField, gk_j));

/* EnterByte: bytes are appended one at a time; in word mode the pair is completed by
 * the second byte (the first one waits in the low lane) */
static void EnterByte(LargeWord b)
    __CPROVER_requires(g_listgran == 1 || g_listgran == 2)
    __CPROVER_requires(g_o_codelen == CodeLen && CodeLen + 1 <= MaxCodeLen && MaxCodeLen <= 65535)
    __CPROVER_requires(gk_q < MaxCodeLen && g_q_val == BAsmCode[gk_q])
    __CPROVER_ensures(CodeLen == g_o_codelen + 1)
    __CPROVER_ensures(!(g_listgran == 1 || (g_o_codelen & 1) == 0) ||
        (BAsmCode[g_o_codelen] == (Byte)(b & 0xff) && (gk_q == g_o_codelen || BAsmCode[gk_q] == g_q_val)))
    /* second byte of a pair in word mode: the pair now reads first, second in logical order */
    __CPROVER_ensures(!(g_listgran == 2 && (g_o_codelen & 1) == 1) ||
        (LOGBYTE(g_o_codelen) == (Byte)(b & 0xff) &&
         (gk_q != g_o_codelen - 1 || LOGBYTE(g_o_codelen - 1) == g_q_val) &&
         (gk_q == g_o_codelen || gk_q == g_o_codelen - 1 || BAsmCode[gk_q] == g_q_val)))
    __CPROVER_assigns(CodeLen, __CPROVER_object_whole(BAsmCode));
#endif
#endif
