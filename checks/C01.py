"""C01 -- multipass assembly ends at a fixpoint (safety half, kernel)"""
from vdriver import G
LEVEL = "other"
GROUPS = []
SYM = "harness/C13/h_asmpars_sym.c"
LAB = "harness/C01/h_asmlabel.c"
def gs(e, fns, **kw):
    GROUPS.append(G("fix_" + e, SYM, "h_" + e, enforce=[], link=["asmdef.c", "tempresult.c", "nonzstring.c", "bpemu.c"], stubs=["stubs/gerr.c"],
                    unwind=kw.pop("unwind", 12), timeout=600, dfcc=False, object_bits=12, defs=["-DSTRINGSIZE=64"], functions=fns, **kw))
gs("SymbolAdder", ["SymbolAdder"])
gs("LookupSymbol", ["LookupSymbol"], bounded="fixed plain name, global scope")
gs("FindNode", ["FindNode", "FindNode_FNode", "FindNode_FSpec"], bounded="section nesting depth <= 2, fixed two-letter name",
   note="a reference resolves to the innermost definition; a FORWARD-announced name is looked up in its own section only during the early passes, so that it stays unknown (and requests a pass) instead of silently binding to an outer symbol of the same name")
GROUPS.append(G("fix_label_fixup", LAB, "h_label_fixup", enforce=[], link=["asmdef.c"], stubs=["stubs/gerr.c"], unwind=8, timeout=300, dfcc=False,
                object_bits=10, functions=["LabelHandle", "LabelModify"]))
GROUPS.append(G("fix_label_fixup:finding", LAB, "h_label_fixup", enforce=[], link=["asmdef.c"], stubs=["stubs/gerr.c"], unwind=8, timeout=300, dfcc=False,
                object_bits=10, functions=["LabelHandle", "LabelModify"], only_finding="C01_PAD_LIVELOCK"))
GROUPS.append(G("fix_passloop", "harness/C02/h_as.c", "h_AssembleFile", enforce=[],
                replace=["AssembleFile_InitPass", "AssembleFile_ExitPass", "ProcessFile", "AssembleFile_WrSummary"],
                link=["asmdef.c"], loops=True, unwind=12, timeout=900, defs=["-DSTRINGSIZE=64"], functions=["AssembleFile"], object_bits=12,
                note="the pass loop leaves only with ErrorCount != 0 or !Repass (loop exit condition under the loop contract as_passloop)"))
GROUPS.append(G("fix_InitPass", "harness/C02/h_as.c", "h_InitPass", enforce=[], link=["asmdef.c"], unwind=260, timeout=900, defs=["-DSTRINGSIZE=64"], dfcc=False, drop_unused=True,
                functions=["AssembleFile_InitPass"], object_bits=12, genbody=("(?!malloc$|calloc$|free$|realloc$|str[a-z]+$|mem[a-z]+$)[A-Za-z][A-Za-z0-9_]*", "nondet-return"),
                note="every callee of another translation unit gets a generated body 'returns anything, writes nothing' (goto-instrument --generate-function-body); callees of other translation units (InitPass callbacks, symbol table resets, CPU selection) are not part of this obligation: only the per-pass state that as.c itself owns"))
TRUSTED_BASE = ["symbol-table model in h_asmlabel.c = SymbolAdder's proved contract for one label", "stubs of h_asmpars_sym.c"]
ASSUMPTIONS = ["every code generator uses the value the evaluator returned (C14's domain)", "termination of the pass loop is not decided"]
NOT_COVERED = ["per-pass state owned by other translation units (InitPass callbacks of the code generators, symbol table resets)", "termination (liveness)", "code generators' use of symbol values", "EnterSymbol/EnterTree between LabelHandle and SymbolAdder"]
EXPLANATION = ("Safety half by the lemma of DESIGN.md 3/C01: (a) a changed constant requests a pass, (b) an unknown reference requests a pass or is "
               "an error, (c) a reference reads the stored value, (d) the pass loop ends only with errors or without a pending request. "
               "Termination is not decidable by contracts; the label/padding livelock is a recorded finding.")
MANIFEST = dict(
    category="other",
    text="Contracts on the kernel functions of the fixpoint argument: SymbolAdder (changed constant => another pass; request never withdrawn), "
         "LookupSymbol (stored value returned; unknown => pass request or error), LabelHandle+LabelModify (label fix-up after padding), and the "
         "pass loop of AssembleFile (exits only with errors or no pending request); AssembleFile_InitPass puts every per-pass variable that as.c owns (PHASE offsets and stacks, counters, open input / section / IF / structure levels) back to its start value, whatever the previous pass left. The run-level statement follows by the written lemma; "
         "termination and the code generators are not decided.",
    note="Known finding C01_PAD_LIVELOCK (label before padded data re-requests a pass forever). Bounded name handling; symbol tree and "
         "EnterSymbol path assumed by SymbolAdder's contract.",
)
