"""C20 -- diagnostics point at the offending source position (kernel: EXPECT machinery, position reports of REPT/IRP)"""
from vdriver import G
LEVEL = "other"
ERR = "harness/C02/h_asmerr.c"
REP = "harness/C11/h_as_rept.c"
GROUPS = []
for f in ["WrXErrorPos", "CodeEXPECT", "CodeENDEXPECT", "AsmErrPassExit"]:
    GROUPS.append(G("exp_" + f, ERR, "h_" + f, enforce=[], replace=["WrErrorString"], link=["asmdef.c"], unwind=12, timeout=600,
                    defs=["-DSTRINGSIZE=64"], functions=[f] + (["FindAndTakeExpectError"] if f == "WrXErrorPos" else []),
                    bounded="at most 3 announced numbers / 3 EXPECT arguments (list walks unwound); WrErrorString replaced by its contract"))
for e, fns in [("REPT_step", ["REPT_Processor", "REPT_GetPos"]), ("IRP_step", ["IRP_Processor", "IRP_GetPos"])]:
    GROUPS.append(G("pos_" + e, REP, "h_" + e, enforce=[], link=["asmdef.c"], stubs=["stubs/gerr.c"], unwind=8, timeout=600, dfcc=False,
                    object_bits=12, defs=["-DSTRINGSIZE=64"], functions=fns,
                    bounded="body of at most 3 lines, at most 4 IRP parameters, group size <= 2"))
GROUPS.append(G("pos_INCLUDE_lines", "harness/C20/h_as_include.c", "h_INCLUDE_lines", enforce=[], link=["asmdef.c", "strcomp.c"], stubs=["stubs/gerr.c"], unwind=8, timeout=600, dfcc=False,
                object_bits=12, defs=["-DSTRINGSIZE=64"],
                functions=["ExpandINCLUDE_Core", "INCLUDE_Processor", "INCLUDE_Restorer", "GenerateProcessor"]))
GROUPS.append(G("pos_GenerateProcessor", "harness/C20/h_as_include.c", "h_GenerateProcessor", enforce=[], link=["asmdef.c", "strcomp.c"], stubs=["stubs/gerr.c"], unwind=8, timeout=600, dfcc=False,
                object_bits=12, defs=["-DSTRINGSIZE=64"], functions=["GenerateProcessor"]))
GROUPS.append(G("pos_ReadLnCont", "harness/C13/h_strutil.c", "h_ReadLnCont", enforce=[], link=[], stubs=["stubs/gerr.c"], unwind=8, timeout=600, dfcc=False, drop_unused=True, object_bits=12,
                defs=["-DVERIF_READLN"], functions=["ReadLnCont"], flags=["--slice-formula"], bounded="logical lines joined from at most 3 physical lines of 0..3 characters each (plus CR/LF, ^Z, continuation)"))
for lv in (0, 1, 2, 3):
    for gnu in (0, 1):
        if lv == 3 and not gnu: continue   # three native levels exhaust the memory budget (14 GB); the composition rule is the same as for two
        GROUPS.append(G("pos_GetErrorPos_n%d_%s" % (lv, "gnu" if gnu else "native"), "harness/C20/h_as_errpos.c", "h_GetErrorPos", enforce=[], link=["asmdef.c", "strcomp.c", "stringlists.c"], stubs=["stubs/gerr.c"],
                        unwind=18, timeout=900, dfcc=False, drop_unused=True, object_bits=12, defs=["-DSTRINGSIZE=64", "-DVERIF_LEVELS=%d" % lv, "-DVERIF_GNU=%d" % gnu],
                        functions=["GetErrorPos", "MACRO_GetPos", "REPT_GetPos", "IRP_GetPos", "INCLUDE_GetPos", "ReallocStr"], flags=["--slice-formula"],
                        bounded="chain of %d input level(s) of arbitrary kinds (macro, REPT, IRP/IRPN, include file), %s format; each level rendered as a two-character token" % (lv, "-gnuerrors" if gnu else "native")))
TRUSTED_BASE = ["ghost output channels / exit monitor of h_asmerr.c", "argument-logging stubs of h_as_rept.c"]
ASSUMPTIONS = ["announcing the numbers of the EXPECT machinery's own messages (2130, 2150, 2160) is excluded"]
NOT_COVERED = ["MACRO_Processor line counting", "INCLUDE_SearchCore (file search)", "column markers", "-gnuerrors formatting"]
EXPLANATION = ("Kernel only: (1) EXPECT/ENDEXPECT: an announced number is suppressed exactly once per announcement (multiset with witness number), "
               "unannounced numbers are untouched, ENDEXPECT reports every announcement left, a missing ENDEXPECT is reported at pass end; "
               "(2) REPT/IRP: after a body line was delivered, CurrLine and the position report name that iteration/parameter and that body line. "
               "The file-name / include-chain part of a position is not under contract.")
MANIFEST = dict(
    category="other",
    text="Contracts on the kernel functions: EXPECT machinery of asmerr.c (suppression consumes exactly one matching announcement, ENDEXPECT reports "
         "the rest, pass exit reports a missing ENDEXPECT) and the position reports of repetition bodies in as.c (REPT_GetPos/IRP_GetPos agree with "
         "what REPT_Processor/IRP_Processor just delivered; CurrLine = start line + body line), line counting across INCLUDE (fresh count inside, includer's count and file name restored) and the start line of every new input level; ReadLnCont returns the number of physical lines a logical line was joined from (bounded; a last line without newline counts); GetErrorPos with the real *_GetPos functions names the innermost include file and every macro / repetition level inside it, outermost first (native), or the include chain and the innermost file:line (-gnuerrors), for chains of up to 2 (native) / 3 (gnu) levels of arbitrary kinds. The run-level statement about every diagnostic of "
         "every program is not decided; column markers and the formatting of the numbers are named unverified.",
    note="Bounded list lengths (<= 3 announcements, <= 3 body lines, <= 4 parameters). Trusted: ghost channels, logging stubs.",
)
