/* gfile.c -- see gfile.h.  Included (not linked) by the harness AFTER <stdio.h> so that
 * these definitions replace CBMC's library models of the same functions. */
#include "verif.h"
#include "stubs/gfile.h"
#include <string.h>
gfile_t gf[2];
int     verif_errno;
unsigned long gf_script[16];
int           gf_script_n, gf_script_i;
void*         gf_noscript_ptr;
int            gf_cell_mode, gf_cell_valid;
unsigned char* gf_cell_addr;
unsigned char  gf_cell_val;
/* "uniform buffer" ghost (cell mode): memset(buf, v, n) observed by the harness's memset monitor; a bulk write out
 * of that buffer transfers v without indexing the real array */
unsigned char* gf_unif_ptr;
unsigned char  gf_unif_val;
unsigned long  gf_unif_n;

/* store the low `total` (<= 8) bytes of v, little endian; loop-free on purpose (a loop in a stub
 * called from a loop under contract would need its own contract) */
#define GF_PUT1(p, t, v, k) if ((k) < (t)) ((unsigned char*)(p))[k] = (unsigned char)((v) >> (8 * (k)))
#define GF_PUT8(p, t, v) { GF_PUT1(p, t, v, 0); GF_PUT1(p, t, v, 1); GF_PUT1(p, t, v, 2); GF_PUT1(p, t, v, 3); \
                              GF_PUT1(p, t, v, 4); GF_PUT1(p, t, v, 5); GF_PUT1(p, t, v, 6); GF_PUT1(p, t, v, 7); }

/* every harness calls this first: under --dfcc all statics start nondeterministic */
static void gf_reset(void) {
    gf_script_n = 0; gf_script_i = 0; gf_noscript_ptr = NULL;
    gf_cell_mode = 0; gf_cell_valid = 0; gf_cell_addr = NULL; gf_cell_val = 0;
    verif_errno = 0;
    gf_unif_ptr = NULL; gf_unif_val = 0; gf_unif_n = 0;
}

static gfile_t* gf_of(FILE* f) {
    if (f == GF_FILE(0)) return &gf[0];
    VASSERT(f == GF_FILE(1), "gfile: stdio call on an unknown FILE*");
    return &gf[1];
}

size_t fread(void* ptr, size_t size, size_t nmemb, FILE* f) {
    gfile_t* g = gf_of(f);
    size_t   total = (size == 1) ? nmemb : (nmemb == 1) ? size : size * nmemb;
    long     avail = (g->len > g->pos) ? g->len - g->pos : 0;
    g->n_read_calls++;
    if (total == 0) return 0;
    if ((long)total > avail || (long)total < 0) {
        /* short read: what is there is delivered, the rest is missing */
        if (avail > 0) {
            if (g->w_off >= g->pos && g->w_off < g->len) ((unsigned char*)ptr)[g->w_off - g->pos] = g->w_val;
        }
        g->pos = g->len;
        g->io_error = 1;
        return (size == 1) ? (size_t)avail : 0;
    }
    if (g == &gf[0] && total <= 8 && ptr != gf_noscript_ptr && gf_script_i >= 0 && gf_script_i < gf_script_n && gf_script_i < 16) {
        unsigned long v = gf_script[gf_script_i++];
        GF_PUT8(ptr, total, v);
        g->pos += (long)total;
        return nmemb;
    }
    if (gf_cell_mode && (total > 8 || ptr == gf_noscript_ptr)) {
        if (ptr == (void*)gf_unif_ptr) gf_unif_n = 0;   /* the buffer is no longer uniform */
        if (g->w_off >= g->pos && g->w_off < g->pos + (long)total) {
            gf_cell_addr = (unsigned char*)ptr + (g->w_off - g->pos);
            gf_cell_val = g->w_val;
            gf_cell_valid = 1;
        }
        g->pos += (long)total;
        return nmemb;
    }
    if (total <= 8) {
        /* field-sized read: arbitrary bytes */
        unsigned long v;
        VND(v, ulong);
        GF_PUT8(ptr, total, v);
    }
    /* bulk read: only the witness byte is transferred; every other byte of the destination keeps
     * whatever (unconstrained) value it had -- a symbolic-length havoc of the buffer made the
     * copy-loop obligations intractable (15 min timeout measured) */
    if (g->w_off >= g->pos && g->w_off < g->pos + (long)total) ((unsigned char*)ptr)[g->w_off - g->pos] = g->w_val;
    g->pos += (long)total;
    return nmemb;
}

size_t fwrite(const void* ptr, size_t size, size_t nmemb, FILE* f) {
    gfile_t* g = gf_of(f);
    size_t   total = (size == 1) ? nmemb : (nmemb == 1) ? size : size * nmemb;
    g->n_write_calls++;
    if (total == 0) return 0;
    if (g->fail_writes) {
        /* device full / I/O error: nothing is written, errno says why */
        g->io_error = 1;
        VND(verif_errno, int);
        VASSUME(verif_errno > 0 && verif_errno < 200);
        return 0;
    }
    if (g->w_off >= g->pos && g->w_off < g->pos + (long)total) {
        if (gf_cell_mode && (total > 8 || ptr == gf_noscript_ptr)) {
            unsigned char const* a = (unsigned char const*)ptr + (g->w_off - g->pos);
            if (gf_cell_valid && a == gf_cell_addr) g->w_val = gf_cell_val;
            else if (gf_unif_n && ptr == (const void*)gf_unif_ptr && (unsigned long)(g->w_off - g->pos) < gf_unif_n) g->w_val = gf_unif_val;
            else VND(g->w_val, uchar);
        } else {
            g->w_val = ((const unsigned char*)ptr)[g->w_off - g->pos];
        }
    }
    g->pos += (long)total;
    g->bytes_written += total;
    if (g->pos > g->len) g->len = g->pos;
    return nmemb;
}

int fseek(FILE* f, long off, int whence) {
    gfile_t* g = gf_of(f);
    long     base = (whence == SEEK_SET) ? 0 : (whence == SEEK_CUR) ? g->pos : g->len;
    long     np = base + off;
    if (np < 0) { verif_errno = 22; return -1; }
    g->pos = np;
    return 0;
}
long ftell(FILE* f) { return gf_of(f)->pos; }
void rewind(FILE* f) { gf_of(f)->pos = 0; }
int  fflush(FILE* f) { (void)f; return 0; }
int  fclose(FILE* f) { gf_of(f)->is_open = 0; return 0; }
int  feof(FILE* f) { gfile_t* g = gf_of(f); return g->pos >= g->len; }
int  fgetc(FILE* f) {
    unsigned char c;
    return (fread(&c, 1, 1, f) == 1) ? (int)c : EOF;
}
int fputc(int c, FILE* f) {
    unsigned char b = (unsigned char)c;
    return (fwrite(&b, 1, 1, f) == 1) ? (int)b : EOF;
}
