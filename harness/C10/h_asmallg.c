/* C10 harness: address bookkeeping statements of the real /repo/asmallg.c */
#include "verif.h"
#include "contracts/asmallg.contracts.h"
#include "asmcode.h"
#include "strutil.h"

unsigned           g_o_actpc, gk_seg;
unsigned long long g_o_pc, g_o_phase, g_w_pc, g_w_phase;
int                g_o_dontprint;
tSavePhase*        g_o_stack;
unsigned long      g_o_err;
long long          g_ev_val, g_ev2_val;
int                g_ev_ok, g_ev_flags, g_ev2_ok, g_ev_calls;
int                g_bk_calls;
unsigned long long g_rest;

/* evaluator oracle: first call answers (g_ev_val, g_ev_ok, g_ev_flags), second (g_ev2_val, g_ev2_ok) */
LargeInt EvalStrIntExpressionWithFlags(const struct sStrComp* pExpr, IntType Type, Boolean* pResult, tSymbolFlags* pFlags) {
    (void)pExpr; (void)Type;
    if (g_ev_calls++ == 0) {
        *pResult = (Boolean)(g_ev_ok != 0);
        if (pFlags) *pFlags = (tSymbolFlags)g_ev_flags;
        return (LargeInt)g_ev_val;
    }
    *pResult = (Boolean)(g_ev2_ok != 0);
    if (pFlags) *pFlags = eSymbolFlag_None;
    return (LargeInt)g_ev2_val;
}
LargeInt EvalStrIntExpression(const struct sStrComp* pExpr, IntType Type, Boolean* pResult) {
    return EvalStrIntExpressionWithFlags(pExpr, Type, pResult, NULL);
}
/* asmsub.c: definitions of the two counters (mirrored; the real ones are one-liners) */
LargeWord ProgCounter(void) { return PCs[ActPC]; }
LargeWord EProgCounter(void) { return PCs[ActPC] + Phases[ActPC]; }
void      BookKeeping(void) { g_bk_calls++; }
static int verif_snprintf0(char* d, size_t n) { if (n) d[0] = 0; return 0; }
#ifdef VERIF_SHARED
/* SHARED: the number formatting calls and the share-file line are observed by variadic monitors that record the value,
 * the notation and the name; the text itself is a one-letter token */
#include <stdarg.h>
static int g_sh_vals, g_sh_style[3], g_sh_lines, g_sh_linekind[3], g_sh_bad; static unsigned long long g_sh_val[3]; static char const* g_sh_name[3]; static char const* g_sh_txt[3];
static int mon_share_snprintf(char* d, size_t n, char const* fmt, ...) {
    va_list ap; int style = 0; unsigned long long v = 0;
    va_start(ap, fmt);
    if (fmt[0] == '%' && fmt[1] == 's' && fmt[2] == '%') { (void)va_arg(ap, char const*); v = va_arg(ap, LargeWord); style = 1; }        /* "%s%lx"   Motorola: $hex  */
    else if (fmt[0] == '0' && fmt[1] == 'x') { v = va_arg(ap, LargeWord); style = 2; }                                                 /* "0x%lx"   C              */
    else if (fmt[0] == '%' && fmt[1] != 's' && fmt[1] != '0') { v = va_arg(ap, LargeWord); (void)va_arg(ap, char const*); style = 3; }   /* "%lx%s"   Intel: hexh    */
    else if (fmt[0] == 'x') { v = va_arg(ap, LargeWord); style = 4; }                                                                    /* "x'%lx'"  IBM            */
    else if (fmt[0] == '%' && fmt[1] == '0') { style = 5; }                                                                              /* "%0.17g"  float          */
    else if (fmt[0] == '(' || fmt[0] == '/' || fmt[0] == ';') { style = 0; }                                                             /* comment                  */
    else g_sh_bad++;
    va_end(ap);
    if (style >= 1 && style <= 4 && g_sh_vals >= 0 && g_sh_vals < 3) { g_sh_style[g_sh_vals] = style; g_sh_val[g_sh_vals] = v; g_sh_vals++; }
    if (n >= 2) { d[0] = (char)(style ? 'V' : 'c'); d[1] = 0; }
    return 1;
}
static int mon_share_fprintf(FILE* f, char const* fmt, ...) {
    va_list ap; (void)f;
    va_start(ap, fmt);
    if (g_sh_lines >= 0 && g_sh_lines < 3) {
        int k = (fmt[0] == '#') ? 2 : (fmt[0] == '%' && fmt[2] == ' ' && fmt[3] == '=') ? 1 : (fmt[0] == '%' && fmt[2] == ' ' && fmt[3] == '%') ? 3 : (fmt[0] == '%' && fmt[2] == '\n') ? 9 : 0;
        g_sh_linekind[g_sh_lines] = k;
        if (k >= 1 && k <= 3) { g_sh_name[g_sh_lines] = va_arg(ap, char const*); g_sh_txt[g_sh_lines] = va_arg(ap, char const*); }
        if (k == 0) g_sh_bad++;
    }
    g_sh_lines++;
    va_end(ap);
    return 1;
}
#define as_snprintf mon_share_snprintf
#define fprintf mon_share_fprintf
#else
#define as_snprintf(d, n, ...) verif_snprintf0((d), (n))
#endif

/* memset monitor (ALIGN n,fill): the fill must stay inside the code buffer; the bytes
 * themselves are not modelled (a symbolic-length memset makes the obligation intractable) */
unsigned long g_ms_len;
int           g_ms_val, g_ms_calls;
static void* verif_memset(void* p, int v, size_t n) {
    if (p == (void*)BAsmCode) {
        VASSERT(n <= MaxCodeLen, "C03: ALIGN fill stays inside the code buffer");
        g_ms_len = n; g_ms_val = v; g_ms_calls++;
    }
    return p;
}
#include <string.h>
#define memset(p, v, n) verif_memset((p), (v), (n))
#include "asmallg.c" /* the real /repo/asmallg.c */
#ifdef VERIF_SHARED
#undef fprintf
#endif
#undef as_snprintf
#undef memset

static char attr_buf[2];
static tStrComp argcomp[3];
static char     argtxt[3][2];

static void mk_state(void) {
    int i;
    PCs = malloc(SegCountPlusStruct * sizeof(LargeWord));
    Phases = malloc(SegCountPlusStruct * sizeof(LargeWord));
    SegInits = malloc(SegCountPlusStruct * sizeof(LargeWord));
    VASSUME(PCs && Phases && SegInits);
    VND_BYTES(PCs, SegCountPlusStruct * sizeof(LargeWord));
    VND_BYTES(Phases, SegCountPlusStruct * sizeof(LargeWord));
    VND_BYTES(SegInits, SegCountPlusStruct * sizeof(LargeWord));
    VND(ActPC, uchar);
    VASSUME(ActPC < SegCountPlusStruct);
    VND(DontPrint, uchar);
    VASSUME(DontPrint <= 1);
    for (i = 0; i < SegCountPlusStruct; i++) {
        VND(PCsUsed[i], uchar);
        VASSUME(PCsUsed[i] <= 1);
    }
    for (i = 0; i < SegCount; i++) pPhaseStacks[i] = NULL;
    if (ActPC < SegCount) {
        Boolean has;
        VND(has, uchar);
        if (has) {
            tSavePhase* p = malloc(sizeof(tSavePhase));
            VASSUME(p != NULL);
            p->pNext = NULL;
            VND(p->SaveValue, u64);
            pPhaseStacks[ActPC] = p;
        }
        g_o_stack = pPhaseStacks[ActPC];
    } else {
        g_o_stack = NULL;
    }
    VND(attr_buf[0], char);
    attr_buf[1] = 0;
    AttrPart.str.p_str = attr_buf;
    for (i = 0; i < 3; i++) {
        argtxt[i][0] = 'x'; argtxt[i][1] = 0;
        argcomp[i].str.p_str = argtxt[i];
        argcomp[i].str.capacity = 2;
    }
    ArgStr = argcomp;
    VND(ArgCnt, int);
    VASSUME(ArgCnt >= 0 && ArgCnt <= 3);
    VND(g_ev_val, i64); VND(g_ev_ok, int); VND(g_ev_flags, int); VND(g_ev2_val, i64); VND(g_ev2_ok, int);
    VASSUME((g_ev_ok == 0 || g_ev_ok == 1) && (g_ev2_ok == 0 || g_ev2_ok == 1));
    g_ev_calls = 0;
    g_bk_calls = 0; g_ms_calls = 0; g_ms_len = 0; g_ms_val = 0;
    VND(g_err_cnt, ulong);
    VASSUME(g_err_cnt < 1000000);
    g_err_last = 0;
    VND(gk_seg, uint);
    VASSUME(gk_seg < SegCountPlusStruct && gk_seg != ActPC);
    g_o_actpc = ActPC; g_o_pc = PCs[ActPC]; g_o_phase = Phases[ActPC]; g_o_dontprint = DontPrint; g_o_err = g_err_cnt;
    g_w_pc = PCs[gk_seg]; g_w_phase = Phases[gk_seg];
}

void h_CodeORG_Core(void) {
    mk_state();
    CodeORG_Core(&argcomp[1]);
    VPOST(ActPC == g_o_actpc && OTHERS_SAME && Phases[ActPC] == g_o_phase, "C10: ORG touches only the active segment's load counter");
    if (g_ev_ok && !EV_UNKNOWN) {
        VPOST(EPC == (LargeWord)g_ev_val, "C10: after ORG x labels and the PC symbol read x");
        VPOST((LargeWord)g_ev_val == g_o_pc + g_o_phase || DontPrint, "C10: a moved counter starts a new record");
        VREACH("set");
    } else {
        VPOST(PCs[ActPC] == g_o_pc && DontPrint == g_o_dontprint, "C10: ORG with an unusable value changes nothing");
        VREACH("unchanged");
    }
}

void h_CodeRORG(void) {
    mk_state();
    CodeRORG(0);
    VPOST(ActPC == g_o_actpc && OTHERS_SAME && Phases[ActPC] == g_o_phase, "C10: RORG touches only the active segment's load counter");
    if (attr_buf[0] == 0 && ArgCnt == 1 && g_ev_ok && !EV_UNKNOWN) {
        VPOST(PCs[ActPC] == g_o_pc + (LargeWord)g_ev_val && DontPrint, "C10: RORG d moves the load counter by d");
        VREACH("moved");
    } else {
        VPOST(PCs[ActPC] == g_o_pc && DontPrint == g_o_dontprint, "C10: RORG with an unusable value changes nothing");
        VREACH("unchanged");
    }
}

void h_CodePHASE(void) {
    mk_state();
    CodePHASE(0);
    VPOST(ActPC == g_o_actpc && OTHERS_SAME && PCs[ActPC] == g_o_pc && DontPrint == g_o_dontprint, "C10: PHASE never moves a load counter nor another segment's offset");
    if (ArgCnt == 1 && ActPC != StructSeg && g_ev_ok) {
        VPOST(EPC == (LargeWord)(LongInt)g_ev_val, "C10: after PHASE x labels and the PC symbol read x");
        VPOST(pPhaseStacks[ActPC] != NULL && pPhaseStacks[ActPC]->SaveValue == g_o_phase && pPhaseStacks[ActPC]->pNext == g_o_stack, "C10: PHASE saves the offset in force");
        VREACH("phase");
    } else {
        VPOST(Phases[ActPC] == g_o_phase, "C10: rejected PHASE changes nothing");
        VREACH("rejected");
    }
}

void h_CodeDEPHASE(void) {
    unsigned long long saved = 0;
    mk_state();
    if (g_o_stack) saved = g_o_stack->SaveValue;
    CodeDEPHASE(0);
    VPOST(ActPC == g_o_actpc && OTHERS_SAME && PCs[ActPC] == g_o_pc && DontPrint == g_o_dontprint, "C10: DEPHASE never moves a load counter nor another segment's offset");
    if (ArgCnt == 0 && ActPC != StructSeg) {
        if (g_o_stack) {
            VPOST(Phases[ActPC] == saved && pPhaseStacks[ActPC] == NULL, "C10: DEPHASE restores the offset in force before the matching PHASE");
            VREACH("pop");
        } else {
            VPOST(Phases[ActPC] == 0, "C10: DEPHASE without PHASE leaves offset 0");
            VREACH("empty");
        }
    } else {
        VPOST(Phases[ActPC] == g_o_phase && g_err_cnt == g_o_err + 1, "C10: rejected DEPHASE changes nothing");
        VREACH("rejected");
    }
}

/* PHASE then DEPHASE: the offset is back to what it was */
void h_PHASE_DEPHASE(void) {
    mk_state();
    VASSUME(ArgCnt == 1 && ActPC != StructSeg && g_ev_ok);
    CodePHASE(0);
    ArgCnt = 0;
    CodeDEPHASE(0);
    VPOST(Phases[ActPC] == g_o_phase && pPhaseStacks[ActPC] == g_o_stack && PCs[ActPC] == g_o_pc && OTHERS_SAME,
          "C10: DEPHASE after PHASE restores the offset of the same segment");
    VREACH("end");
}

void h_SetNSeg(void) {
    Byte n;
    Boolean used_before, wused_before;
    unsigned long long pc_before;
    mk_state();
    VND(n, uchar);
    VASSUME(n < SegCountPlusStruct);
    VND(gk_seg, uint);
    VASSUME(gk_seg < SegCountPlusStruct);
    g_w_pc = PCs[gk_seg]; g_w_phase = Phases[gk_seg];
    used_before = PCsUsed[n]; wused_before = PCsUsed[gk_seg]; pc_before = PCs[n];
    SetNSeg(n);
    VPOST(ActPC == n && PCsUsed[n], "C10: SEGMENT makes the segment active and used");
    VPOST(used_before ? PCs[n] == pc_before : PCs[n] == SegInits[n], "C10: a segment resumes its own counter; first use starts at its initial address");
    VPOST(gk_seg == n || (PCs[gk_seg] == g_w_pc && PCsUsed[gk_seg] == wused_before), "C10: SEGMENT leaves the other segments' counters alone");
    VPOST(!(n != g_o_actpc || !used_before) || DontPrint, "C10: a segment change starts a new record");
    VREACH("end");
}

void h_CodeALIGN(void) {
    unsigned n;
    mk_state();
    VND(MaxCodeLen, uint);
    VASSUME(MaxCodeLen >= 1 && MaxCodeLen <= 65535);
    BAsmCode = malloc(MaxCodeLen);
    VASSUME(BAsmCode != NULL);
    CodeLen = 0;
#ifdef VERIF_ALIGN_ARGS
    VASSUME(ArgCnt == VERIF_ALIGN_ARGS);
#endif
    {
        /* written exactly as CodeALIGN computes it, so that CBMC shares the divider */
        Word nw = (Word)(LargeInt)((ArgCnt == 2) ? g_ev2_val : g_ev_val);
#if VERIF_ALIGN_ARGS == 1
        nw = (Word)(LargeInt)g_ev_val;
#elif VERIF_ALIGN_ARGS == 2
        nw = (Word)(LargeInt)g_ev2_val;
#endif
#if VERIF_ALIGN_ARGS == 2
        g_rest = 0; (void)nw;
#else
        g_rest = nw ? EProgCounter() % nw : 0;
#endif
    }
    CodeALIGN(0);
    n = ALIGN_N;
    VPOST(ActPC == g_o_actpc && OTHERS_SAME && PCs[ActPC] == g_o_pc && Phases[ActPC] == g_o_phase, "C10: ALIGN itself moves no counter (the reserved code does)");
    if (ALIGN_OKS && n != 0 && ArgCnt == 1) {
        VPOST(CodeLen == (LongInt)(g_rest ? n - g_rest : 0), "C10: ALIGN n reserves up to the next multiple of n");
        VPOST((DontPrint != 0) == (CodeLen != 0) && g_bk_calls == 1, "C10: ALIGN's gap is a reservation");
#if VERIF_ALIGN_ARGS != 2
        VREACH("reserve");
#endif
    }
    if (ALIGN_OKS && n != 0 && ArgCnt == 2 && g_err_cnt == g_o_err) {
#if VERIF_ALIGN_ARGS != 2
        VPOST(CodeLen == (LongInt)(g_rest ? n - g_rest : 0) && !DontPrint, "C10: ALIGN n,fill fills up to the next multiple of n");
#else
        /* the distance computation is the statement's common part and is decided by the
         * one-argument group; here only the fill-specific facts */
        VPOST(CodeLen >= 0 && (unsigned)CodeLen < n && !DontPrint, "C10: ALIGN n,fill emits fewer than n fill bytes");
#endif
        VPOST(g_ms_calls == 1 && g_ms_len == (unsigned long)CodeLen && (Byte)g_ms_val == (Byte)g_ev_val, "C10: ALIGN n,fill fills the gap with the fill value");
#if VERIF_ALIGN_ARGS != 1
        VREACH("fill");
#endif
    }
    if (ALIGN_OKS && n == 0 && (ArgCnt == 1 || ArgCnt == 2)) {
        VPOST(g_err_cnt >= g_o_err + 1 && CodeLen == 0, "C10: ALIGN 0 is an error");
        VREACH("zero");
    }
    VREACH("end");
}

/* ---- C13: PUBLIC / GLOBAL / FORWARD argument lists (CodePPSyms) ---------------------------------------------
 * each argument is "name" (destination: global, i.e. the empty section text) or "name:section"; the destination of one
 * argument must not leak into the next.  String helpers are ASCII stand-ins, IdentifySection logs the section text. */
#ifdef VERIF_PPSYMS
#include "strcomp.h"
char* QuotPosQualify(char const* s, char Zeichen, tQualifyQuoteFnc QualifyQuoteFnc) { int i; (void)QualifyQuoteFnc; for (i = 0; i < 8 && s[i]; i++) if (s[i] == Zeichen) return (char*)s + i; return NULL; }
Boolean ExpandStrSymbol(char* pDest, size_t DestSize, const struct sStrComp* pSrc) { size_t i; for (i = 0; i + 1 < DestSize && i < 8 && pSrc->str.p_str[i]; i++) pDest[i] = pSrc->str.p_str[i]; pDest[i] = 0; return True; }
void NLS_UpString(char* s) { (void)s; }
char* GetErrorPos(void) { return NULL; }
char* as_strdup(char const* s) { char* d = malloc(8); int i; VASSUME(d != NULL); for (i = 0; i < 7 && s[i]; i++) d[i] = s[i]; d[i] = 0; return d; }
static char g_sec_first[4]; static int g_sec_len[4]; static int g_sec_calls;
Boolean IdentifySection(const struct sStrComp* pName, LongInt* Erg) {
    int n = 0; while (n < 8 && pName->str.p_str[n]) n++;
    if (g_sec_calls >= 0 && g_sec_calls < 4) { g_sec_first[g_sec_calls] = pName->str.p_str[0]; g_sec_len[g_sec_calls] = n; }
    g_sec_calls++; *Erg = (n == 0) ? -1 : 7; return True;
}
void h_CodePPSyms(void) {
    static tStrComp a[4]; static char t1[8], t2[8], t3[8]; PForwardSymbol orig = NULL, alt1 = NULL, alt2 = NULL, r; int q1, q3, cnt = 0;
    VND(q1, int); VND(q3, int);                                        /* is the first / third argument section-qualified? */
    t1[0] = 'a'; t1[1] = (q1 & 1) ? ':' : 0; t1[2] = 'S'; t1[3] = 0;   /* "a:S" or "a" */
    t2[0] = 'b'; t2[1] = 0;                                            /* "b"          */
    t3[0] = 'c'; t3[1] = (q3 & 1) ? ':' : 0; t3[2] = 'T'; t3[3] = 0;   /* "c:T" or "c" */
    a[1].str.p_str = t1; a[1].str.capacity = 8; a[2].str.p_str = t2; a[2].str.capacity = 8; a[3].str.p_str = t3; a[3].str.capacity = 8;
    ArgStr = a; ArgCnt = 3; CaseSensitive = True; g_sec_calls = 0;
    VND(g_err_cnt, ulong); VASSUME(g_err_cnt < 1000000);
    CodePPSyms(&orig, &alt1, &alt2);
    for (r = orig; r && cnt < 5; r = r->Next) cnt++;
    VPOST(cnt == 3 && g_sec_calls == 3, "C13: every name of a PUBLIC/GLOBAL/FORWARD list is entered once");
    VPOST((q1 & 1) ? (g_sec_len[0] == 1 && g_sec_first[0] == 'S') : g_sec_len[0] == 0, "C13: name:section is redirected to that section, a plain name to global");
    VPOST(g_sec_len[1] == 0, "C13: an unqualified name after a qualified one is global (the qualifier of one argument does not leak into the next)");
    VPOST((q3 & 1) ? (g_sec_len[2] == 1 && g_sec_first[2] == 'T') : g_sec_len[2] == 0, "C13: ... and a later qualified name gets its own section");
    VPOST(orig && orig->Name[0] == 'c' && orig->DestSection == ((q3 & 1) ? 7 : -1), "C13: the list entry records the destination section of its own argument");
    VREACH("end");
}
#endif

/* ---- C10: SAVE / RESTORE -----------------------------------------------------------------------------------
 * SAVE pushes the CPU, the active segment and the listing state; RESTORE reinstates exactly what the matching SAVE
 * stored (whatever was changed in between), forces a new record if the segment changes, re-selects the CPU only if it
 * differs, and an unmatched RESTORE is an error that changes nothing. */
#ifdef VERIF_SAVE
#include "strcomp.h"
#include "lstmacroexp.h"
static int g_setcpu_calls; static CPUVar g_setcpu_cpu; static int g_liston_entered; static long long g_liston_val; static int g_lme, g_lme_set;
void verif_SetCPUByType(CPUVar NewCPU, const struct sStrComp* pCPUArgs) { (void)pCPUArgs; g_setcpu_calls++; g_setcpu_cpu = NewCPU; MomCPU = NewCPU; }
char* as_strdup(char const* s) { char* d = malloc(4); VASSUME(d != NULL); d[0] = s ? s[0] : 0; d[1] = 0; return d; }
tLstMacroExp GetLstMacroExp(void) { return (tLstMacroExp)g_lme; }
void SetLstMacroExp(tLstMacroExp NewMacroExp) { g_lme = (int)NewMacroExp; g_lme_set++; }
void StrCompMkTemp(tStrComp* pComp, char* pStr, size_t capacity) { pComp->str.p_str = pStr; pComp->str.capacity = capacity; pComp->str.dynamic = 0; }
size_t strmaxcpy(char* dest, char const* src, size_t Max) { size_t n = 0; if (!Max) return 0; while (n < 8 && src[n] && n + 1 < Max) { dest[n] = src[n]; n++; } dest[n] = 0; return n; }
struct sSymbolEntry* EnterIntSymbolWithFlags(const struct sStrComp* pName, LargeInt Wert, as_addrspace_t addrspace, Boolean MayChange, tSymbolFlags Flags) {
    (void)addrspace; (void)MayChange; (void)Flags; if (pName->str.p_str[0] == 'L') { g_liston_entered++; g_liston_val = Wert; } return NULL;
}
void h_SAVE_RESTORE(void) {
    static char cpuargs[2]; PSaveState below; CPUVar cpu0; Byte pc0, lo0, dp0; int lme0; unsigned long ec; void* tt0;
    VND(ActPC, uchar); VASSUME(ActPC < SegCountPlusStruct); VND(MomCPU, int); VND(ListOn, uchar); VND(g_lme, int); VND(DontPrint, uchar); VASSUME(DontPrint <= 1);
    cpuargs[0] = 'a'; cpuargs[1] = 0; MomCPUArgs = cpuargs; ArgCnt = 0; FirstSaveState = NULL; below = FirstSaveState;
    VND(g_err_cnt, ulong); VASSUME(g_err_cnt < 1000000); ec = g_err_cnt;
    cpu0 = MomCPU; pc0 = ActPC; lo0 = ListOn; lme0 = g_lme; tt0 = CurrTransTable;
    CodeSAVE(0);
    VPOST(FirstSaveState != NULL && FirstSaveState->Next == below && FirstSaveState->SaveCPU == cpu0 && FirstSaveState->SavePC == pc0 && FirstSaveState->SaveListOn == lo0,
          "C10: SAVE pushes the CPU, the active segment and the listing switch");
    /* anything may happen between SAVE and RESTORE */
    VND(ActPC, uchar); VASSUME(ActPC < SegCountPlusStruct); VND(MomCPU, int); VND(ListOn, uchar); VND(g_lme, int); VND(DontPrint, uchar); VASSUME(DontPrint <= 1);
    { Byte pc1 = ActPC; CPUVar cpu1 = MomCPU; dp0 = DontPrint;
      g_setcpu_calls = 0; g_liston_entered = 0; g_lme_set = 0;
      CodeRESTORE(0);
      VPOST(ActPC == pc0, "C10: RESTORE reinstates the segment that was active at the matching SAVE");
      VPOST(DontPrint == ((pc1 != pc0) ? 1 : dp0), "C10: a segment change by RESTORE starts a new record (reservation flag), no change leaves the flag alone");
      VPOST(MomCPU == cpu0 && g_setcpu_calls == ((cpu1 != cpu0) ? 1 : 0) && (cpu1 == cpu0 || g_setcpu_cpu == cpu0), "C10: RESTORE re-selects the saved CPU exactly when it differs from the current one");
      VPOST(ListOn == lo0 && g_liston_entered == 1 && g_liston_val == lo0 && g_lme == lme0 && g_lme_set == 1, "C10: RESTORE reinstates the listing state (LISTON symbol, macro expansion mode)");
      VPOST(FirstSaveState == below && g_err_cnt == ec, "C10: RESTORE pops exactly the frame of the matching SAVE"); }
    /* one RESTORE too many */
    { Byte pc2 = ActPC; CPUVar cpu2 = MomCPU;
      CodeRESTORE(0);
      VPOST(g_err_cnt == ec + 1 && g_err_last == ErrNum_NoSaveFrame && ActPC == pc2 && MomCPU == cpu2 && FirstSaveState == NULL, "C10: RESTORE without SAVE is an error and changes nothing"); }
    (void)tt0;
    VREACH("end");
}
#endif

/* ---- C02: the user diagnostics WARNING / ERROR / FATAL / MESSAGE route to WrErrorString with the right class -------------
 * (WrErrorString itself -- which counter moves, exit 3 after FATAL -- is under contract in h_asmerr.c) */
#ifdef VERIF_USERMSG
static int g_wes_calls, g_wes_warn, g_wes_fatal, g_con_calls, g_lst_calls; static int g_str_ok;
void WrErrorString(char const* pMessage, char const* pAdd, Boolean Warning, Boolean Fatal, char const* pExtendError, const struct sLineComp* pLineComp) {
    (void)pMessage; (void)pAdd; (void)pExtendError; (void)pLineComp; g_wes_calls++; g_wes_warn = Warning; g_wes_fatal = Fatal;
}
void EvalStrStringExpression(const struct sStrComp* pExpr, Boolean* pResult, char* pEvalResult) { (void)pExpr; *pResult = (Boolean)(g_str_ok != 0); pEvalResult[0] = 'm'; pEvalResult[1] = 0; }
void WrConsoleLine(char const* pLine, Boolean NewLine) { (void)pLine; (void)NewLine; g_con_calls++; }
void WrLstLine(char const* Line) { (void)Line; g_lst_calls++; }
void h_user_diagnostics(void) {
    static tStrComp a[2]; static char t[2]; int which; unsigned long ec;
    t[0] = 'x'; t[1] = 0; a[1].str.p_str = t; a[1].str.capacity = 2; ArgStr = a;
    VND(ArgCnt, int); VASSUME(ArgCnt >= 0 && ArgCnt <= 2); VND(g_str_ok, int); VND(which, int); VASSUME(which >= 0 && which <= 3);
    VND(QuietMode, uchar); { static char ln[2]; ln[0] = 'l'; ln[1] = 0; LstName = ln; }
    VND(g_err_cnt, ulong); VASSUME(g_err_cnt < 1000000); ec = g_err_cnt; g_wes_calls = g_con_calls = g_lst_calls = 0;
    if (which == 0) CodeWARNING(0); else if (which == 1) CodeERROR(0); else if (which == 2) CodeFATAL(0); else CodeMESSAGE(0);
    if (ArgCnt == 1 && g_str_ok) {
        if (which <= 2) {
            VPOST(g_wes_calls == 1 && (g_wes_warn != 0) == (which == 0) && (g_wes_fatal != 0) == (which == 2) && g_err_cnt == ec,
                  "C02: WARNING reports a warning, ERROR an error, FATAL a fatal error -- each exactly one diagnostic");
            VREACH("diag");
        } else {
            VPOST(g_wes_calls == 0 && g_err_cnt == ec && g_lst_calls == 1, "C02: MESSAGE prints its text and counts as neither error nor warning");
            VREACH("message");
        }
    } else {
        VPOST(g_wes_calls == 0 && g_err_cnt == ec + 1, "C02: a malformed WARNING/ERROR/FATAL/MESSAGE statement is itself reported (one error), never silently dropped");
        VREACH("malformed");
    }
}
#endif

/* ---- C19: SHARED writes, for every argument that names a defined symbol, one line "name <value>" in the syntax of the
 * share-file mode (-p Pascal: $hex, -c C: 0xhex, -a assembler: the target's notation), with the value the symbol table
 * holds at this point, in argument order; an undefined name writes nothing (LookupSymbol reports it). ---- */
#ifdef VERIF_SHARED
static int g_lk_calls, g_lk_typ[3]; static long long g_lk_val[3]; static char const* g_lk_name[3];
void LookupSymbol(const struct sStrComp* pName, TempResult* pValue, Boolean WantRelocs, TempType ReqType) {
    int i = g_lk_calls++; (void)WantRelocs; (void)ReqType;
    if (i < 0 || i > 2) i = 2;
    g_lk_name[i] = pName->str.p_str;
    if (g_lk_typ[i] == TempInt) { pValue->Typ = TempInt; pValue->Contents.Int = g_lk_val[i]; } else pValue->Typ = TempNone;
}
Boolean IsSymbolChangeable(const struct sStrComp* pName) { Boolean b; (void)pName; VND(b, uchar); return (Boolean)(b & 1); }
void ChkIO(tErrorNum ErrNo) { (void)ErrNo; }
/* strmaxprep by its contract (str_strmaxprep): the text tokens here are one letter, the prefix is not part of what is checked */
void strmaxprep(char* d, char const* s2, size_t max) { (void)s2; (void)max; d[0] = d[0]; }
char const* GetIntConstMotoPrefix(unsigned Radix) { (void)Radix; return "$"; }
char const* GetIntConstIntelSuffix(unsigned Radix) { (void)Radix; return "h"; }
void h_CodeSHARED(void) {
    static tStrComp a[3]; static char t[3][2], comm[2]; int i, want = 0, w[3]; static FILE fobj;
    for (i = 0; i < 3; i++) { t[i][0] = (char)('a' + i); t[i][1] = 0; a[i].str.p_str = t[i]; a[i].str.capacity = 2; }
    ArgStr = a; VND(ArgCnt, int); VASSUME(ArgCnt >= 1 && ArgCnt <= 2);
    comm[0] = 0; CommPart.str.p_str = comm; ShareFile = &fobj;
    VND(ShareMode, uchar); VASSUME(ShareMode >= 1 && ShareMode <= 3);
    { int m; VND(m, int); VASSUME(m == eIntConstModeIntel || m == eIntConstModeMoto || m == eIntConstModeC || m == eIntConstModeIBM); IntConstMode = (tIntConstMode)m; }
    for (i = 0; i < 3; i++) { VND(g_lk_typ[i], int); VASSUME(g_lk_typ[i] == TempInt || g_lk_typ[i] == TempNone); VND(g_lk_val[i], i64); }
    g_lk_calls = 0; g_sh_vals = 0; g_sh_lines = 0; g_sh_bad = 0;
    for (i = 1; i <= ArgCnt; i++) if (g_lk_typ[i - 1] == TempInt) w[want++] = i;
    CodeSHARED(0);
    VPOST(g_sh_bad == 0, "harness: every print format on the path is known to the monitor");
    VPOST(g_lk_calls == ArgCnt && g_sh_lines == want && g_sh_vals == want, "C19: SHARED writes exactly one line per argument that names a defined symbol");
    for (i = 0; i < 2; i++) if (i < want) {
        int style = ShareMode == 1 ? 1 : ShareMode == 2 ? 2 : (IntConstMode == eIntConstModeMoto ? 1 : IntConstMode == eIntConstModeC ? 2 : IntConstMode == eIntConstModeIntel ? 3 : 4);
        VPOST(g_sh_name[i] == t[w[i]] && g_lk_name[w[i] - 1] == t[w[i]], "C19: the share-file line carries the argument's name, in argument order");
        VPOST(g_sh_val[i] == (unsigned long long)g_lk_val[w[i] - 1], "C19: the share-file line carries the value the symbol table holds for that symbol");
        VPOST(g_sh_style[i] == style && g_sh_linekind[i] == ShareMode, "C19: value and line are written in the syntax of the share-file mode (Pascal $hex / C 0xhex / assembler: the target's notation)");
    }
    VREACH("end");
    if (want == 2) VREACH("two lines");
    if (want == 1 && ArgCnt == 2 && g_lk_typ[0] != TempInt) VREACH("undefined first");
}
#endif
