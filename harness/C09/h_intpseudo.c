/* C09 harness: the element layout functions of the real /repo/intpseudo.c (DW/DD/DQ arguments):
 * an integer that fits is laid down once, one that does not fit is rejected; every character of a string
 * argument is laid down as its own (translated) character code 0..255, in order.
 * The formula parser is an oracle (integer or string result of up to 3 characters); the Put* back ends of the
 * layout context are monitors that log what they are handed. */
#include "verif.h"
#include <stdio.h>
#include <stdlib.h>
#include <string.h>
#include "stdinc.h"
#include "asmdef.h"
#include "asmsub.h"
#include "asmpars.h"
#include "errmsg.h"
#include "stubs/gerr.h"
#include "tempresult.h"
#include "dynstr.h"

static long long g_ev_int; static unsigned g_ev_flags; static int g_ev_typ; static unsigned g_ev_len; static char g_ev_chars[4];
void EvalStrExpression(tStrComp const* pExpr, TempResult* pErg) {
    (void)pExpr;
    pErg->Flags = (tSymbolFlags)g_ev_flags; pErg->AddrSpaceMask = 0; pErg->DataSize = eSymbolSizeUnknown; pErg->Relocs = NULL;
    if (g_ev_typ == TempInt) { pErg->Typ = TempInt; pErg->Contents.Int = g_ev_int; }
    else { pErg->Typ = TempString; pErg->Contents.str.p_str = g_ev_chars; pErg->Contents.str.len = g_ev_len; pErg->Contents.str.capacity = 4; }
}
void as_tempres_ini(TempResult* p) { p->Typ = TempNone; p->Flags = eSymbolFlag_None; p->Relocs = NULL; }
void as_tempres_free(TempResult* p) { p->Typ = TempNone; }
Boolean MultiCharToInt(TempResult* pResult, unsigned MaxLen) { (void)pResult; (void)MaxLen; return False; }   /* double-quoted strings are never character constants */
void TranslateString(char* s, int Length) { (void)s; (void)Length; }                                          /* identity character map */
Boolean RangeCheck(LargeInt Wert, IntType Typ) {
    if (Typ == Int16) return (Boolean)(Wert >= -32768 && Wert <= 65535);
    if (Typ == Int32) return (Boolean)(Wert >= -2147483648LL && Wert <= 4294967295LL);
    return True;
}
/* ASCII versions of the strutil.c helpers the argument splitter uses (the real ones go through locale tables, which makes
 * every comparison symbolic even on concrete text) */
static int up(int c) { return (c >= 'a' && c <= 'z') ? c - 32 : c; }
int as_strncasecmp(char const* a, char const* b, size_t n) { size_t i; for (i = 0; i < n; i++) { int x = up((unsigned char)a[i]), y = up((unsigned char)b[i]); if (x != y) return x - y; if (!x) return 0; } return 0; }
int as_strcasecmp(char const* a, char const* b) { return as_strncasecmp(a, b, 64); }
size_t strmaxcpy(char* dest, char const* src, size_t Max) { size_t n = 0; if (!Max) return 0; while (src[n] && n + 1 < Max) { dest[n] = src[n]; n++; } dest[n] = 0; return n; }
size_t as_dynstr_copy(as_dynstr_t* p_dest, as_dynstr_t const* p_src) {                                       /* dynstr.c, for non-dynamic destinations */
    size_t n = 0; while (p_src->p_str[n] && n + 1 < p_dest->capacity) { p_dest->p_str[n] = p_src->p_str[n]; n++; } p_dest->p_str[n] = 0; return n;
}
int KillPostBlanks(char* s) { int n = 0, r = 0; while (n < 31 && s[n]) n++; while (n > 0 && (s[n - 1] == ' ' || s[n - 1] == '\t')) { s[--n] = 0; r++; } return r; }   /* strutil.c */
int as_isspace(int c) { return c == ' ' || c == '\t' || c == '\n' || c == '\r' || c == '\f' || c == '\v'; }
static int mon0(void) { return 0; }
#define fprintf(...) mon0()
#define printf(...) mon0()
#include "contracts/loop_defaults.h"
#include "intpseudo.c" /* the real /repo/intpseudo.c */

static int g_puts; static unsigned long long g_put[4]; static int g_put_w[4];
static Boolean mon_Put16I(Word w, struct sLayoutCtx* pCtx) { (void)pCtx; if (g_puts >= 0 && g_puts < 4) { g_put[g_puts] = w; g_put_w[g_puts] = 16; } g_puts++; return True; }
static Boolean mon_Put32I(LongWord l, struct sLayoutCtx* pCtx) { (void)pCtx; if (g_puts >= 0 && g_puts < 4) { g_put[g_puts] = l; g_put_w[g_puts] = 32; } g_puts++; return True; }
static Boolean mon_Put64I(LargeWord q, struct sLayoutCtx* pCtx) { (void)pCtx; if (g_puts >= 0 && g_puts < 4) { g_put[g_puts] = q; g_put_w[g_puts] = 64; } g_puts++; return True; }

static void setup(struct sLayoutCtx* c, tStrComp* e, char* txt) {
    memset(c, 0, sizeof(*c)); c->Put16I = mon_Put16I; c->Put32I = mon_Put32I; c->Put64I = mon_Put64I; c->DSFlag = DSNone;
    txt[0] = 'x'; txt[1] = 0; e->str.p_str = txt; e->str.capacity = 2; c->pCurrComp = e;
    VND(g_ev_typ, int); VASSUME(g_ev_typ == TempInt || g_ev_typ == TempString);
    VND(g_ev_int, i64); VND(g_ev_flags, uint); g_ev_flags &= ~(unsigned)(eSymbolFlag_FirstPassUnknown | eSymbolFlag_Questionable);
    VND(g_ev_len, uint); VASSUME(g_ev_len >= 1 && g_ev_len <= 3);
    VND(g_ev_chars[0], char); VND(g_ev_chars[1], char); VND(g_ev_chars[2], char); g_ev_chars[3] = 0;
    VND(g_err_cnt, ulong); VASSUME(g_err_cnt < 1000000);
    g_puts = 0;
}
#define CHECK_LAYOUT(FN, WIDTH, ITYPE, LO, HI, MASK)                                                                           \
    struct sLayoutCtx c; tStrComp e; char txt[2]; unsigned long ec; Boolean r; int k;                                          \
    setup(&c, &e, txt); ec = g_err_cnt;                                                                                        \
    r = FN(&e, &c);                                                                                                            \
    if (g_ev_typ == TempInt) {                                                                                                 \
        if (g_ev_int >= (LO) && g_ev_int <= (HI)) {                                                                            \
            VPOST(r && g_puts == 1 && g_put_w[0] == WIDTH && g_put[0] == ((unsigned long long)g_ev_int & (MASK)) && g_err_cnt == ec, \
                  "C09: an integer argument that fits the element is laid down once, as its two's-complement value");         \
            VREACH("int");                                                                                                     \
        } else {                                                                                                               \
            VPOST(g_puts == 0 && g_err_cnt == ec + 1 && g_err_last == ErrNum_OverRange, "C09: a value that does not fit the element is rejected with an error, not truncated"); \
            VREACH("range");                                                                                                   \
        }                                                                                                                      \
    } else {                                                                                                                   \
        VPOST(r && g_puts == (int)g_ev_len && g_err_cnt == ec, "C09: a string argument lays down one element per character");  \
        VND(k, int); VASSUME(k >= 0 && k < (int)g_ev_len);                                                                     \
        VPOST(g_put_w[k] == WIDTH && g_put[k] == (unsigned long long)(unsigned char)g_ev_chars[k],                             \
              "C09: each character of a string argument is laid down as its character code 0..255 (not sign-extended), in order"); \
        VREACH("string");                                                                                                      \
    }
void h_LayoutWord(void) { CHECK_LAYOUT(LayoutWord, 16, Int16, -32768LL, 65535LL, 0xffffULL) }
void h_LayoutDoubleWord(void) { CHECK_LAYOUT(LayoutDoubleWord, 32, Int32, -2147483648LL, 4294967295LL, 0xffffffffULL) }

/* ---- n DUP (x): the body is laid down n times (once by the recursion + n-1 replications); a count of 0 lays down
 * nothing, a negative count is an error and lays down nothing.  The argument text is the concrete "3 DUP(x)" with
 * the value of the count expression an oracle, so the string helpers run concretely. */
static int g_body, g_repl; static long long g_dup; static int g_dup_ok;
static Boolean mon_Layout(tStrComp const* pArg, struct sLayoutCtx* pCtx) { (void)pCtx; if (pArg->str.p_str[0] == 'x' && pArg->str.p_str[1] == 0) g_body++; else g_body += 100; pCtx->CurrCodeFill.FullWordCnt += 1; return True; }
static Boolean mon_Replicate(tCurrCodeFill const* pStartPos, tCurrCodeFill const* pEndPos, struct sLayoutCtx* pCtx) {
    if (pEndPos->FullWordCnt - pStartPos->FullWordCnt == 1) g_repl++; else g_repl += 100;
    pCtx->CurrCodeFill.FullWordCnt += 1; return True;
}
LargeInt EvalStrIntExpressionWithFlags(tStrComp const* pExpr, IntType Type, Boolean* pResult, tSymbolFlags* pFlags) {
    (void)Type; *pResult = (Boolean)(g_dup_ok != 0); *pFlags = eSymbolFlag_None;
    if (!(pExpr->str.p_str[0] == '3')) g_body += 1000;      /* the count expression is the text before DUP */
    return g_dup;
}
void h_DUP_count(void) {
    struct sLayoutCtx c; tStrComp e; static char txt[16]; unsigned long ec; Boolean r;
    memset(&c, 0, sizeof(c)); c.LayoutFunc = mon_Layout; c.Replicate = mon_Replicate; c.DSFlag = DSNone;
    c.FillIncPerElem.FullWordCnt = 1;
    txt[0] = '3'; txt[1] = ' '; txt[2] = 'D'; txt[3] = 'U'; txt[4] = 'P'; txt[5] = '('; txt[6] = 'x'; txt[7] = ')'; txt[8] = 0;
    e.str.p_str = txt; e.str.capacity = 16; e.str.dynamic = 0; e.Pos.StartCol = 0; e.Pos.Len = 8; c.pCurrComp = &e;
    VND(g_dup, i64); VASSUME(g_dup >= -2147483648LL && g_dup <= 6); g_dup_ok = 1;
    VND(g_err_cnt, ulong); VASSUME(g_err_cnt < 1000000); ec = g_err_cnt;
    g_body = g_repl = 0;
    r = DecodeIntelPseudo_LayoutMult(&e, &c);
    if (g_dup > 0) {
        VPOST(r && g_body == 1 && g_repl == (int)g_dup - 1 && g_err_cnt == ec, "C09: n DUP (x) lays the body down exactly n times (the body once, n-1 replications)");
        VPOST(c.CurrCodeFill.FullWordCnt == g_dup, "C09: ... and the fill position advances by n elements");
        VREACH("positive");
    } else {
        VPOST(r && g_body == 0 && g_repl == 0 && c.CurrCodeFill.FullWordCnt == 0, "C09: a DUP count of 0 (or a negative one) lays down nothing");
        VPOST((g_err_cnt == ec + 1) == (g_dup < 0), "C09: a negative DUP count is reported, a count of 0 is not");
        VREACH("nonpositive");
    }
    VPOST(c.pCurrComp == &e, "C09: the argument context is restored");
}

/* ---- positions inside a data statement are (full words, elements in the last word); the abstract value is
 * words * E + elements with E elements per word (E = 1 when an element fills one or more words).  The helpers must be
 * exact integer arithmetic on that value and keep positions normalised. ---- */
#define FVAL(f, E) ((long long)(f).FullWordCnt * (E) + (f).LastWordFill)
static void mk_fill(tCurrCodeFill* f, int E, long long maxw) { VND(f->FullWordCnt, int); VND(f->LastWordFill, int); VASSUME(f->FullWordCnt >= 0 && f->FullWordCnt <= maxw && f->LastWordFill >= 0 && f->LastWordFill < E); }
void h_CodeFill_arith(void) {
    struct sLayoutCtx c; tCurrCodeFill a, b, d; int E, epw; unsigned n; long long va, vb;
    memset(&c, 0, sizeof(c));
    VND(epw, int); VASSUME(epw == 0 || epw == 1 || epw == 2 || epw == 4 || epw == 8); c.ElemsPerFullWord = epw; E = epw > 1 ? epw : 1;
    VND(c.FullWordSize, int); VASSUME(c.FullWordSize >= 1 && c.FullWordSize <= 4);
    mk_fill(&a, E, 0x7fffffff); mk_fill(&b, E, 0x7fffffff); va = FVAL(a, E); vb = FVAL(b, E);
    if (va >= vb) {
        SubCodeFill(&d, &a, &b, &c);
        VPOST(FVAL(d, E) == va - vb && d.LastWordFill >= 0 && d.LastWordFill < E && d.FullWordCnt >= 0, "C09: SubCodeFill is the exact difference of two positions (end - start of a DUP body), normalised");
        VREACH("sub");
        if (a.LastWordFill < b.LastWordFill) VREACH("sub borrow");
    }
    if (va + vb <= 0x80000000LL * E - 1) {
        tCurrCodeFill s = a;
        IncCodeFillBy(&s, &b, &c);
        VPOST(FVAL(s, E) == va + vb && s.LastWordFill >= 0 && s.LastWordFill < E, "C09: IncCodeFillBy is the exact sum of position and size, normalised");
        VREACH("add");
    }
}

/* n-fold of a size (body sizes up to 15 words, every count; the caller has made sure the product is representable) */
void h_CodeFill_mult(void) {
    struct sLayoutCtx c; tCurrCodeFill d; int E, epw; unsigned n; long long vd;
    memset(&c, 0, sizeof(c));
#ifndef VERIF_EPW
#define VERIF_EPW 1
#endif
    epw = VERIF_EPW; c.ElemsPerFullWord = epw; E = epw > 1 ? epw : 1;   /* one group per elements-per-word value */
    mk_fill(&d, E, 15); vd = FVAL(d, E);
    VND(n, uint);
    VASSUME(vd * (long long)n <= 0x80000000LL * E - 1);
    MultCodeFill(&d, n, &c);
    VPOST(FVAL(d, E) == vd * (long long)n && d.LastWordFill >= 0 && d.LastWordFill < E && d.FullWordCnt >= 0, "C09: MultCodeFill is the exact n-fold of a size, normalised");
    VREACH("mult");
    if (n > 0x40000000u && vd > 0) VREACH("mult large count");
}

/* ---- n DUP (?,?,?): a reservation of n times the body; a size that cannot be represented is refused, never wrapped ---- */
void h_DUP_reserve(void) {
    struct sLayoutCtx c; tStrComp e; static char txt[20]; unsigned long ec; Boolean r; int E, epw; long long v0, want;
    memset(&c, 0, sizeof(c)); c.LayoutFunc = mon_Layout; c.Replicate = mon_Replicate; c.DSFlag = DSNone;
    VND(epw, int); VASSUME(epw == 0 || epw == 1 || epw == 2 || epw == 4); c.ElemsPerFullWord = epw; E = epw > 1 ? epw : 1;
    if (epw > 1) { c.FillIncPerElem.FullWordCnt = 0; c.FillIncPerElem.LastWordFill = 1; }
    else { VND(c.FillIncPerElem.FullWordCnt, int); VASSUME(c.FillIncPerElem.FullWordCnt >= 1 && c.FillIncPerElem.FullWordCnt <= 10); c.FillIncPerElem.LastWordFill = 0; }
    mk_fill(&c.CurrCodeFill, E, 1000); v0 = FVAL(c.CurrCodeFill, E);
    { char const* t = "3 DUP(?,?,?)"; int i; for (i = 0; t[i]; i++) txt[i] = t[i]; txt[i] = 0; e.Pos.Len = i; }
    e.str.p_str = txt; e.str.capacity = 20; e.str.dynamic = 0; e.Pos.StartCol = 0; c.pCurrComp = &e;
    VND(g_dup, i64); VASSUME(g_dup >= 1 && g_dup <= 2147483647LL); g_dup_ok = 1;
    VND(g_err_cnt, ulong); VASSUME(g_err_cnt < 1000000); ec = g_err_cnt;
    g_body = g_repl = 0;
    want = v0 + 3 * FVAL(c.FillIncPerElem, E) * g_dup;
    r = DecodeIntelPseudo_LayoutMult(&e, &c);
    if (want <= 0x80000000LL * E - 1) {
        VPOST(r && g_err_cnt == ec && FVAL(c.CurrCodeFill, E) == want && c.CurrCodeFill.LastWordFill >= 0 && c.CurrCodeFill.LastWordFill < E, "C09: n DUP (?,?,?) reserves exactly n times the size of its body");
        VPOST(c.DSFlag == DSSpace && g_repl == 0, "C09: a DUP of reservations stays a reservation (nothing is replicated)");
        VREACH("reserved");
        if (g_dup > 100000) VREACH("large reservation");
        if (epw > 1 && c.CurrCodeFill.LastWordFill) VREACH("ends inside a word");
    } else {
        VPOST(!r && g_err_cnt == ec + 1, "C09: a reservation whose size cannot be represented is an error (no wrap-around to a small size)");
        VREACH("refused");
    }
}
