/* C19 harness: BookKeeping of the real /repo/asmsub.c -- the function through which every code-bearing line
 * reaches the usage map (listing), the section usage and the debug-info records (MAP / NoICE / Atmel).
 * All three must be told the address at which the code file holds the line: the LOAD address
 * (ProgCounter()), never the phased one. */
#include "verif.h"
#include <stdio.h>
#include <stdlib.h>
#include <string.h>
#include "stdinc.h"
#include "stubs/gerr.h"
#include "chunks.h"
#include "asmdef.h"
#include "asmpars.h"
#include "asmdebug.h"

static int g_chunk_calls, g_chunk_ret, g_chunk_warn, g_sec_calls, g_li_calls, g_li_macro, g_li_line, g_li_space;
static ChunkList* g_chunk_list; static unsigned long long g_chunk_start, g_chunk_len, g_sec_start, g_sec_len, g_li_adr, g_li_len;
static char const* g_li_file;
static Boolean verif_AddChunk(ChunkList* NChunk, LargeWord NewStart, LargeWord NewLen, Boolean Warn) {
    g_chunk_calls++; g_chunk_list = NChunk; g_chunk_start = NewStart; g_chunk_len = NewLen; g_chunk_warn = Warn; return (Boolean)(g_chunk_ret != 0);
}
#define AddChunk(a, b, c, d) verif_AddChunk((a), (b), (c), (d))
static void verif_AddSectionUsage(LongInt Start, LongInt Length) { g_sec_calls++; g_sec_start = (unsigned long long)Start; g_sec_len = (unsigned long long)Length; }
#define AddSectionUsage(a, b) verif_AddSectionUsage((a), (b))
static void verif_AddLineInfo(Boolean InMacro, LongInt LineNum, char* FileName, ShortInt Space, LargeInt Address, LargeInt Len) {
    g_li_calls++; g_li_macro = InMacro; g_li_line = LineNum; g_li_file = FileName; g_li_space = Space; g_li_adr = (unsigned long long)Address; g_li_len = (unsigned long long)Len;
}
#define AddLineInfo(a, b, c, d, e, f) verif_AddLineInfo((a), (b), (c), (d), (e), (f))
#ifdef VERIF_WRLST
/* listing-line monitor: every "%s\n" written to the listing file is one physical listing line; its length is recorded */
#include <stdarg.h>
static int g_ll_lines, g_ll_len[8], g_ll_other; static char g_ll_first[8];
static int mon_lst_fprintf(FILE* f, char const* fmt, ...) {
    va_list ap; va_start(ap, fmt);
    if (f == LstFile && fmt[0] == '%' && fmt[1] == 's' && fmt[2] == '\n' && fmt[3] == 0) {
        char const* t = va_arg(ap, char const*); int n = 0;
        while (n < 14 && t[n]) n++;
        if (g_ll_lines >= 0 && g_ll_lines < 8) { g_ll_len[g_ll_lines] = n; g_ll_first[g_ll_lines] = t[0]; }
        g_ll_lines++;
    } else g_ll_other++;
    va_end(ap);
    return 1;
}
#define fprintf mon_lst_fprintf
/* memset / memcpy with symbolic lengths: bounded byte loops; every byte access carries CBMC's own bounds / pointer obligation (CBMC's library
 * models exhaust the memory here) */
static void* verif_memset8(void* d, int v, size_t n) { size_t i; for (i = 0; i < n && i < 8; i++) ((char*)d)[i] = (char)v; VASSERT(n <= 8, "harness: memset monitor capacity"); return d; }
static void* verif_memcpy16(void* d, void const* s2, size_t n) { size_t i; for (i = 0; i < n && i < 16; i++) ((char*)d)[i] = ((char const*)s2)[i]; VASSERT(n <= 16, "harness: memcpy monitor capacity"); return d; }
#define memset(d, v, n) verif_memset8((d), (v), (n))
#define memcpy(d, s2, n) verif_memcpy16((d), (s2), (n))
#endif
#include "contracts/loop_defaults.h"
#include "asmsub.c" /* the real /repo/asmsub.c */
#ifdef VERIF_WRLST
#undef fprintf
#undef memset
#undef memcpy
#endif
#undef AddChunk
#undef AddSectionUsage
#undef AddLineInfo

void h_BookKeeping(void) {
    int k; unsigned long long pc, ph; unsigned long err0; char fn[2];
    VND(ActPC, uchar); VASSUME(ActPC < SegCount);
    VND(k, int); VASSUME(k >= 0 && k < SegCount);
    PCs = malloc(SegCountPlusStruct * sizeof(LargeWord));
    Phases = malloc(SegCountPlusStruct * sizeof(LargeWord));
    VASSUME(PCs && Phases);
    VND(PCs[ActPC], u64); VND(Phases[ActPC], u64); VND(PCs[k], u64); VND(Phases[k], u64);
    pc = PCs[ActPC]; ph = Phases[ActPC];
    VND(CodeLen, int); VASSUME(CodeLen >= 0);
    VND(MakeUseList, uchar); VND(DebugMode, int); VASSUME(DebugMode >= DebugNone && DebugMode <= DebugNoICE);
    VND(InMacroFlag, uchar); VND(CurrLine, int); fn[0] = 'f'; fn[1] = 0; CurrFileName = fn;
    VND(g_chunk_ret, int);
    g_chunk_calls = g_sec_calls = g_li_calls = 0; err0 = g_err_cnt = 0;
    BookKeeping();
    VPOST(g_chunk_calls == (MakeUseList ? 1 : 0), "C19: the usage map is updated once per line iff a listing with usage map is requested");
    if (MakeUseList) {
        VPOST(g_chunk_list == SegChunks + ActPC && g_chunk_start == pc && g_chunk_len == (unsigned long long)(LargeWord)CodeLen,
              "C19: the usage map of the active segment gets the line's load address and length");
        VPOST((g_err_cnt == err0 + 1) == (g_chunk_ret != 0), "C19: an overlap is reported exactly when the usage map finds one");
    }
    VPOST(g_li_calls == (DebugMode != DebugNone ? 1 : 0) && g_sec_calls == g_li_calls, "C19: one debug record per code-bearing line iff debug output is requested");
    if (DebugMode != DebugNone) {
        VPOST(g_li_adr == pc && g_li_space == ActPC && g_li_line == CurrLine && g_li_file == fn && g_li_len == (unsigned long long)(LargeInt)CodeLen && g_li_macro == InMacroFlag,
              "C19: the debug record carries the address at which the code file holds the line (load address, not the phased one), its segment, line and length");
        VPOST(g_sec_start == (unsigned long long)(LongInt)pc && g_sec_len == (unsigned long long)(LongInt)CodeLen, "C19: section usage gets the load address and length");
        VREACH("debug");
    }
    VPOST(PCs[ActPC] == pc && Phases[ActPC] == ph, "C19: bookkeeping does not move the counters");
    VREACH("end");
}

/* ---- C11: "a macro argument is substituted only where a whole name matches" -------------------------------
 * IsValidParameterName decides, for a candidate occurrence [Pos, End) in a line of length StrLen, whether it is
 * a whole name: not preceded and not followed by a letter or digit.  Loop-free: complete for every line content,
 * every position and every length up to the buffer size chosen here (the function never looks further). */
static int is_alnum(char c) { return (c >= 'A' && c <= 'Z') || (c >= 'a' && c <= 'z') || (c >= '0' && c <= '9'); }
void h_IsValidParameterName(void) {
    as_dynstr_t s; int pos, end, len; unsigned cap; Boolean r; char before, after;
    VND(cap, uint); VASSUME(cap >= 2 && cap <= 64);
    s.p_str = malloc(cap); VASSUME(s.p_str != NULL); s.capacity = cap; s.dynamic = 1;
    VND_BYTES(s.p_str, cap);
    VND(len, int); VND(pos, int); VND(end, int);
    VASSUME(len >= 0 && (unsigned)len < cap && pos >= 0 && pos < end && end <= len);   /* what ReplaceLine passes */
    s.p_str[len] = 0;
    before = pos > 0 ? s.p_str[pos - 1] : ' '; after = end < len ? s.p_str[end] : ' ';
    r = IsValidParameterName(&s, pos, end, len);
    VPOST((r != 0) == (!is_alnum(before) && !is_alnum(after)), "C11: an occurrence is a whole name iff it is neither preceded nor followed by a letter or digit (line start/end count as separators)");
    VREACH("end");
}
/* SetToken: parameter number n (0..255 in practice < 16*15) becomes the two control bytes (n/16+1, n%16+1), NUL-terminated;
 * distinct numbers give distinct tokens and no token byte is 0 */
void h_SetToken(void) {
    char a[3], b[3]; unsigned m, n;
    VND(m, uint); VND(n, uint); VASSUME(m < 240 && n < 240);
    SetToken(a, m); SetToken(b, n);
    VPOST(a[0] != 0 && a[1] != 0 && a[2] == 0, "C11: a parameter token is two non-zero bytes");
    VPOST((a[0] == b[0] && a[1] == b[1]) == (m == n), "C11: different parameters have different tokens");
    VPOST((unsigned char)a[0] <= 16 && (unsigned char)a[1] <= 16, "C11: token bytes are control characters 1..16 (never letters or digits)");
    VREACH("end");
}
/* CompressLine on short lines (bounded stand-in for the substitution loop of ReplaceLine): every whole-name
 * occurrence of the one-letter parameter 'n' becomes the token, everything else stays, in order. */
#ifndef VERIF_LINE_MAX
#define VERIF_LINE_MAX 6
#endif
void h_CompressLine_short(void) {
    as_dynstr_t s; char in[VERIF_LINE_MAX + 1], exp[2 * VERIF_LINE_MAX + 1], name[2]; int len, i, o = 0, cnt = 0, r; unsigned tok;
    VND(len, int); VASSUME(len >= 0 && len <= VERIF_LINE_MAX);
    s.capacity = 2 * VERIF_LINE_MAX + 2; s.p_str = malloc(s.capacity); VASSUME(s.p_str != NULL); s.dynamic = 1;
    for (i = 0; i < VERIF_LINE_MAX; i++) { VND(in[i], char); VASSUME(in[i] != 0 && in[i] != '\\'); }
    in[len] = 0;
    for (i = 0; i <= len; i++) s.p_str[i] = in[i];
    VND(tok, uint); VASSUME(tok < 240);
    name[0] = 'n'; name[1] = 0;
    for (i = 0; i < len; i++) {
        if (in[i] == 'n' && (i == 0 || !is_alnum(in[i - 1])) && (i + 1 >= len || !is_alnum(in[i + 1]))) {
            exp[o++] = (char)((tok >> 4) + 1); exp[o++] = (char)((tok & 15) + 1); cnt++;
        } else exp[o++] = in[i];
    }
    exp[o] = 0;
    r = CompressLine(name, tok, &s, True);
    VPOST(r == cnt, "C11: CompressLine reports the number of whole-name occurrences");
    { int same = 1; for (i = 0; i <= o; i++) if (s.p_str[i] != exp[i]) same = 0;
      VPOST(same, "C11: exactly the whole-name occurrences of the parameter are replaced by its token; all other text is kept in order"); }
    VREACH("end");
}

/* ---- C03 / C11: what counts as a symbol name / macro parameter name.  The character classes are an arbitrary table (they
 * depend on the target); the rule itself: a name is non-empty, its first character is of the 'first' class, every further
 * one of the 'following' class.  An empty name accepted as a macro / IRP / FUNCTION parameter makes the text substitution
 * loop forever (ReplaceLine with a zero-length search). ---- */
void h_ChkNames(void) {
    static Byte table[256]; char name[4]; int i, n, want_s, want_m; Boolean rs, rm;
    VND_BYTES(table, 256); ValidSymChar = table; ValidSymCharLen = 256;
    VND_BYTES(name, 4); name[3] = 0;
    for (n = 0; n < 3 && name[n]; n++) ;
    want_s = want_m = (n > 0);
    for (i = 0; i < 3; i++) if (i < n) {
        Byte c = table[(unsigned char)name[i]];
        if (!(c & (i == 0 ? 1 : 2))) want_s = 0;     /* VALID_S1 / VALID_SN */
        if (!(c & (i == 0 ? 4 : 8))) want_m = 0;     /* VALID_M1 / VALID_MN */
    }
    rs = ChkSymbName(name); rm = ChkMacSymbName(name);
    VPOST((rs != 0) == (want_s != 0), "C13/C03: a symbol name is non-empty, starts with a 'first' character and continues with 'following' characters");
    VPOST((rm != 0) == (want_m != 0), "C11/C03: a macro parameter name is non-empty, starts with a 'first' character and continues with 'following' characters");
    VREACH("end");
    if (n == 0) VREACH("empty name");
}

#ifdef VERIF_WRLST
/* ---- C19 / C03: a listing line wider than the page is written as ceil(width / page width) physical lines that together hold
 * the line with its tabs expanded to the next multiple of 8, none wider than the page; the expansion buffer is large enough
 * for any line (it was a fixed 2500-byte array).  Lines of 0..5 characters over { TAB, 'a' }, page widths 4..12. ---- */
void h_WrLstLine(void) {
    static char line[8]; static FILE fobj; int n, i, blen = 0, want, sum = 0;
    VND_BYTES(line, 8); line[5] = 0;
    for (i = 0; i < 5; i++) { VASSUME(line[i] == '\t' || line[i] == 'a'); if (i >= VERIF_LEN) line[i] = 0; }   /* one group per line length: a buffer of symbolic size exhausted the memory */
    n = VERIF_LEN;
    for (i = 0; i < 5; i++) if (i < n) { if (line[i] == '\t') blen += 8 - (blen & 7); else blen++; }
    ListOn = 1; ListToNull = False; LstFile = &fobj; LstCounter = 0;
    PageLength = 60;   /* concrete: with a symbolic page length every physical line would also explore NewPage */
    VND(PageWidth, uchar); VASSUME(PageWidth == 0 || (PageWidth >= 4 && PageWidth <= 12));
    g_ll_lines = 0; g_ll_other = 0;
    WrLstLine(line);
    if (PageLength == 0 || PageWidth == 0 || (n << 3) < (int)PageWidth) want = 1;
    else { want = blen / PageWidth + ((blen % PageWidth) ? 1 : 0); if (want == 0) want = 0; }
    if (want == 1 || PageLength == 0) {
        VPOST(g_ll_lines == 1 && g_ll_len[0] == n, "C19: a listing line that fits the page is written as it is");
        VREACH("fits");
    } else {
        VPOST(g_ll_lines == want, "C19: a listing line wider than the page is split into ceil(expanded width / page width) physical lines");
        for (i = 0; i < 8; i++) if (i < g_ll_lines) { VPOST(g_ll_len[i] <= (int)PageWidth, "C19: no physical listing line is wider than the page"); sum += g_ll_len[i]; }
        VPOST(sum == blen, "C19: the physical lines together hold the whole line with its tabs expanded");
        VREACH("split");
    }
    VREACH("end");
}
#endif
