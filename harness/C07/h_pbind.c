/* C07 harness: ProcessFile / OpenTarget / CloseTarget of the real /repo/pbind.c.
 * toolutils.c is linked in as the real code (its helpers are under contract in h_toolutils.c). */
#include "verif.h"
#include <stdio.h>
#include <stdlib.h>
#include <string.h>
#include <errno.h>
#include "stubs/gfile.c"
#include "contracts/pbind.contracts.h"
#include "fileformat.h"
#include "addrspace.h"
#include "nlmessages.h"
#include "toolutils.h"
#include "ioerrs.h"

VERIF_BUMP_DEFINE
long g_src_pay0, g_tgt_pay0, g_paylen, g_src_woff, g_tgt_woff, g_src_len;
unsigned char g_src_wval;
int  g_exit_code;
#undef errno
#define errno verif_errno
static char msg_txt[2];
char* getmessage(int Num) { (void)Num; return msg_txt; }
static int mon_print0(void) { return 0; }
#define fprintf(...) mon_print0()
#define printf(...) mon_print0()
static void verif_exit(int code) { g_exit_code = code; VASSUME(0); }
#define exit(c) verif_exit(c)
static int g_open_which;
static FILE* mon_fopen_t(void);
static FILE* mon_fopen(void) { return g_open_which == 1 ? mon_fopen_t() : GF_FILE(g_open_which); }
#define fopen(n, m) mon_fopen()
/* the -f decision is an oracle here (FilterOK itself is under contract in h_toolutils.c) */
int g_doit;
static Boolean verif_FilterOK(Byte Header) { (void)Header; return (Boolean)(g_doit != 0); }
#define FilterOK(h) verif_FilterOK(h)
#define main pbind_main
#include "pbind.c" /* the real /repo/pbind.c */
#undef main
#undef FilterOK
#undef exit
#undef fopen
/* environment of the linked real toolutils.c */
char* catgetmessage(PMsgCat Catalog, int Num) { (void)Catalog; (void)Num; return msg_txt; }
char* GetErrorMsg(int number) { (void)number; return msg_txt; }

static void mk_file(int i) {
    VND(gf[i].len, long); VND(gf[i].pos, long); VND(gf[i].w_off, long); VND(gf[i].w_val, uchar);
    VASSUME(gf[i].len >= 0 && gf[i].len <= 0x7fffffff && gf[i].pos >= 0 && gf[i].pos <= gf[i].len && gf[i].w_off >= 0);
    gf[i].is_open = 1; gf[i].fail_writes = 0; gf[i].n_write_calls = 0; gf[i].n_read_calls = 0; gf[i].bytes_written = 0; gf[i].io_error = 0;
}

/* one data record (any header form, any filter decision, any payload length) followed by
 * the end record; the target is at its end (arbitrary earlier contents) */
void h_ProcessFile_data(void) {
    Byte hdr, cpu, seg, gran; unsigned long start; unsigned len; long L0, hdrlen, k; char name[2];
    int longform;
    gf_reset();
    mk_file(0); mk_file(1);
    gf[0].pos = 0;
    gf[1].pos = gf[1].len; /* appending */
    L0 = gf[1].len;
    VASSUME(L0 <= 0x70000000);
    Buffer = malloc(BufferSize);
    VASSUME(Buffer != NULL);
    gf_noscript_ptr = Buffer;
    gf_cell_mode = 1; gf_cell_valid = 0; gf_cell_addr = NULL; gf_cell_val = 0;
    TargFile = GF_FILE(1);
    g_open_which = 0;
    VND(QuietMode, uchar);
    verif_errno = 0; g_exit_code = -1; msg_txt[0] = 'm'; msg_txt[1] = 0; name[0] = 'f'; name[1] = 0;
    VND(cpu, uchar); VND(seg, uchar); VND(gran, uchar); VND(start, ulong); VND(len, uint); VND(longform, int);
    VASSUME(start <= 0xffffffffu && len <= 0xffff);
    VND(g_doit, int);
    /* script: magic, header (long: 0x81 cpu seg gran / short: cpu), start, length, ..., end */
    gf_script_i = 0;
    gf_script[0] = FileMagic;
    if (longform) { gf_script[1] = FileHeaderDataRec; gf_script[2] = cpu; gf_script[3] = seg; gf_script[4] = gran; gf_script[5] = start; gf_script[6] = len; gf_script[7] = FileHeaderEnd; gf_script_n = 8; g_src_pay0 = 2 + 4 + 6; }
    else { VASSUME(cpu <= 0x7f && cpu != 0); seg = SegCode; gran = (Byte)Granularity(cpu, SegCode);
           gf_script[1] = cpu; gf_script[2] = start; gf_script[3] = len; gf_script[4] = FileHeaderEnd; gf_script_n = 5; g_src_pay0 = 2 + 1 + 6; }
    g_paylen = len;
    /* the source is long enough for the record (else: format error, see h_ProcessFile_trunc) */
    VASSUME(g_src_pay0 + g_paylen < gf[0].len - 1);
    hdrlen = ((seg != SegCode) || (gran != Granularity(cpu, seg)) || (cpu >= 0x80)) ? 4 : 1;
    g_tgt_pay0 = L0 + hdrlen + 6;
    /* witness: payload byte k of the record, in source and in target */
    VND(k, long);
    VASSUME(k >= 0 && k < 0x10000);
    gf[0].w_off = g_src_pay0 + k;
    VND(gf[1].w_off, long);
    VASSUME(gf[1].w_off >= 0);
    g_src_woff = gf[0].w_off; g_tgt_woff = gf[1].w_off; g_src_len = gf[0].len; g_src_wval = gf[0].w_val;
    ProcessFile(name);
    VPOST(g_exit_code == -1, "C07: (harness) ProcessFile returned");
    if (g_doit) {
        VPOST(gf[1].len == L0 + hdrlen + 6 + (long)len && gf[1].pos == gf[1].len, "C07: a passing data record adds header + address + length + payload bytes");
        if (gf[1].w_off >= L0 && gf[1].w_off < L0 + hdrlen) {
            long j = gf[1].w_off - L0;
            VPOST(hdrlen == 1 ? gf[1].w_val == cpu : (gf[1].w_val == (j == 0 ? FileHeaderDataRec : j == 1 ? cpu : j == 2 ? seg : gran)),
                  "C07: the record header keeps CPU, segment and granularity");
            VREACH("hdr");
        }
        if (gf[1].w_off >= L0 + hdrlen && gf[1].w_off < L0 + hdrlen + 4) {
            VPOST(gf[1].w_val == (Byte)(start >> (8 * (gf[1].w_off - L0 - hdrlen))), "C07: the start address is unchanged");
            VREACH("addr");
        }
        if (gf[1].w_off >= L0 + hdrlen + 4 && gf[1].w_off < L0 + hdrlen + 6) {
            VPOST(gf[1].w_val == (Byte)(len >> (8 * (gf[1].w_off - L0 - hdrlen - 4))), "C07: the length field is unchanged");
            VREACH("len");
        }
        if (gf[1].w_off == g_tgt_pay0 + k && k < (long)len) {
            VPOST(gf[1].w_val == gf[0].w_val, "C07: payload byte k of the output is payload byte k of the input");
            VREACH("payload");
        }
    } else {
        VPOST(gf[1].len == L0 && gf[1].n_write_calls == 0, "C07: a record that fails the -f filter is not copied");
        VREACH("filtered");
    }
    VPOST(gf[0].pos == g_src_pay0 + (long)len + 1, "C07: the input is consumed exactly up to the next record");
}

/* OpenTarget / CloseTarget: the output starts with the magic $1489 and ends with the end record (0) followed by the creator
 * string and nothing else -- "PBIND's output is a well-formed code file". */
static FILE* mon_fopen_t(void) { gf[1].len = 0; gf[1].pos = 0; gf[1].is_open = 1; return GF_FILE(1); }     /* "wb": created / truncated */
void h_Open_Close_Target(void) {
    long L1; size_t cl, j;
    gf_reset(); mk_file(0); mk_file(1); gf_cell_mode = 0; gf_noscript_ptr = NULL;
    verif_errno = 0; g_exit_code = -1; msg_txt[0] = 'm'; msg_txt[1] = 0; g_open_which = 1; TargFile = NULL;
    VND(gf[1].w_off, long); VASSUME(gf[1].w_off >= 0 && gf[1].w_off < 2);
    OpenTarget();
    VPOST(TargFile == GF_FILE(1) && gf[1].len == 2 && gf[1].pos == 2, "C07: the output file starts with the two magic bytes");
    VPOST(gf[1].w_val == (gf[1].w_off == 0 ? 0x89 : 0x14), "C07: the magic is $1489, least significant byte first");
    /* any records in between (ProcessFile appends, see h_ProcessFile_data) */
    VND(L1, long); VASSUME(L1 >= 2 && L1 <= 0x70000000); gf[1].len = L1; gf[1].pos = L1;
    cl = 0; while (cl < 16 && Creator[cl]) cl++;
    VND(j, size_t); VASSUME(j <= cl); gf[1].w_off = L1 + (long)j;
    CloseTarget();
    VPOST(gf[1].len == L1 + 1 + (long)cl && !gf[1].is_open, "C07: the output ends with the end-record byte and the creator string, and is closed");
    VPOST(gf[1].w_val == (j == 0 ? FileHeaderEnd : (unsigned char)Creator[j - 1]), "C07: end record = byte 0 followed by the creator string");
    VPOST(g_exit_code == -1, "C07: (harness) no I/O error was signalled");
    VREACH("end");
}
