/* C11 harness: macro call arguments in the real /repo/as.c: ExpandMacro (positional, keyword and default arguments, excess
 * arguments, ALLARGS, ARGCOUNT) and ComputeMacroStrings (ALLARGS / ARGCOUNT after SHIFT).  Lists are the real stringlists.c. */
#include "verif.h"
#include <stdio.h>
#include <stdlib.h>
#include <string.h>
#include "stdinc.h"
#include "asmdef.h"
#include "asmsub.h"
#include "asmmac.h"
#include "dynstr.h"
#include "strutil.h"
#include "stubs/gerr.h"
#include "stringlists.h"
#include "strcomp.h"
#include "lstmacroexp.h"

/* faithful string helpers for the short strings used here (<= 11 characters) */
size_t strmaxcpy(char* dest, char const* src, size_t Max) { size_t n = 0; if (!Max) return 0; while (n < 12 && src[n] && n + 1 < Max) { dest[n] = src[n]; n++; } dest[n] = 0; return n; }
size_t strmaxcat(char* Dest, char const* Src, size_t MaxLen) { size_t d = 0, n = 0; while (d < 12 && d < MaxLen && Dest[d]) d++; if (d >= MaxLen) return 0; while (n < 12 && Src[n] && d + 1 < MaxLen) Dest[d++] = Src[n++]; Dest[d] = 0; return n; }
char*  as_strdup(char const* s) { size_t n = 0, i; char* p; if (!s) return NULL; while (n < 12 && s[n]) n++; p = malloc(n + 1); VASSUME(p != NULL); for (i = 0; i < n; i++) p[i] = s[i]; p[n] = 0; return p; }
char*  QuotPosQualify(char const* s, char Zeichen, tQualifyQuoteFnc q) { (void)q; size_t i; for (i = 0; i < 12 && s[i]; i++) if (s[i] == Zeichen) return (char*)s + i; return NULL; } /* no quotes or brackets in the alphabet */
int    KillPrefBlanks(char* s) { (void)s; return 0; }                       /* no blanks in the alphabet */
void   KillPostBlanksStrComp(struct sStrComp* p) { (void)p; }
Integer SaveIFs(void) { return 3; }
tLstMacroExp ApplyLstMacroExpMod(tLstMacroExp Src, tLstMacroExpMod const* pMod) { (void)pMod; return Src; }
static int mon0(void) { return 0; }
/* "%d" of ARGCOUNT: one digit */
static int mon_num(char* d, size_t n, long v) { if (n >= 2) { d[0] = (char)('0' + (v % 10)); d[1] = 0; } return 1; }
#define VA1(a, ...) (long)(a)
#define as_snprintf(d, n, fmt, ...) mon_num((d), (n), VA1(__VA_ARGS__, 0))
#define printf(...) mon0()
#define fprintf(...) mon0()
#define main as_main
#include "contracts/loop_defaults.h"
#include "as.c" /* the real /repo/as.c */
#undef main
#undef as_snprintf

static int seq(char const* a, char const* b) { int i; for (i = 0; i < 12; i++) { if (a[i] != b[i]) return 0; if (!a[i]) return 1; } return 1; }
static size_t put(char* d, size_t k, char const* s) { size_t i; for (i = 0; i < 4 && s[i]; i++) d[k++] = s[i]; d[k] = 0; return k; }

/* ALLARGS / ARGCOUNT after SHIFT: the remaining arguments, comma separated - also when some of them are empty */
void h_ComputeMacroStrings(void) {
    static TInputTag t; static StringRec p[3]; static char txt[3][3]; char want[12]; int n, i; size_t k = 0;
    memset(&t, 0, sizeof(t));
    VND(n, int); VASSUME(n >= 0 && n <= 3);
    for (i = 0; i < 3; i++) { VND_BYTES(txt[i], 3); txt[i][2] = 0; VASSUME(txt[i][0] != ',' && txt[i][1] != ','); p[i].Content = txt[i]; p[i].Next = (i + 1 < n) ? &p[i + 1] : NULL; }
    t.Params = n ? &p[0] : NULL; t.ParCnt = n; t.UsesAllArgs = True; t.UsesNumArgs = True;
    t.AllArgs[0] = 'x'; t.AllArgs[1] = 0;
    want[0] = 0;
    for (i = 0; i < n; i++) { if (i) k = put(want, k, ","); k = put(want, k, txt[i]); }
    ComputeMacroStrings(&t);
    VPOST(seq(t.AllArgs, want), "C11: ALLARGS after SHIFT is the comma separated list of the remaining arguments, empty ones included");
    VPOST(t.NumArgs[0] == '0' + n && t.NumArgs[1] == 0, "C11: ARGCOUNT after SHIFT is the number of remaining arguments");
    VREACH("end");
    if (n == 2 && txt[0][0] == 0) VREACH("leading empty argument");
}

/* A macro with 0..2 formal parameters P, Q (defaults arbitrary) called with 0..3 arguments over the alphabet { P Q = x }:
 * positional arguments bind in order, an empty one takes the default, NAME=value binds by name, excess arguments are appended,
 * missing ones take their default; ALLARGS is the argument list as written, ARGCOUNT the number of arguments. */
void h_ExpandMacro(void) {
    static MacroRec m; static StringRec nm[2], dv[2]; static char nmt[2][2], dvt[2][2];
    static tStrComp args[4]; static char at[4][4]; static char attr[2], lab[2], mname[2];
    char want_all[16], orig[4][4]; char const* want_par[5]; int pc, i, n_want, keyword_seen = 0, errors = 0; size_t k = 0; PInputTag t; StringRecPtr r;
    memset(&m, 0, sizeof(m));
    pc = VERIF_PC; /* one group per (formal parameter count, argument count): concrete list shapes keep the symbolic execution small */
    nmt[0][0] = 'P'; nmt[1][0] = 'Q'; nmt[0][1] = nmt[1][1] = 0;
    for (i = 0; i < 2; i++) { VND_BYTES(dvt[i], 2); dvt[i][1] = 0; nm[i].Content = nmt[i]; dv[i].Content = dvt[i]; nm[i].Next = (i + 1 < pc) ? &nm[i + 1] : NULL; dv[i].Next = (i + 1 < pc) ? &dv[i + 1] : NULL; }
    m.ParamCount = pc; m.ParamNames = pc ? &nm[0] : NULL; m.ParamDefVals = pc ? &dv[0] : NULL; m.FirstLine = NULL;
    m.UsesAllArgs = True; m.UsesNumArgs = True; mname[0] = 'm'; mname[1] = 0; m.Name = mname; m.UseCounter = 0;
    ArgCnt = VERIF_NARGS;
    for (i = 0; i < 4; i++) {
        int j; VND_BYTES(at[i], 4); at[i][3] = 0;
        for (j = 0; j < 3; j++) VASSUME(at[i][j] == 0 || at[i][j] == 'P' || at[i][j] == 'Q' || at[i][j] == '=' || at[i][j] == 'x');
        for (j = 0; j < 4; j++) orig[i][j] = at[i][j];
        args[i].str.p_str = at[i]; args[i].str.capacity = 4; args[i].str.dynamic = 0;
    }
    ArgStr = args;
    attr[0] = 0; lab[0] = 0; AttrPart.str.p_str = attr; LabPart.str.p_str = lab;
    CaseSensitive = True; NestMax = 0; IfAsm = True; FirstInputTag = NULL; MacroNestLevel = 0; CurrLine = 1;
    VND(g_err_cnt, ulong); VASSUME(g_err_cnt < 1000000);
    /* specification side */
    want_all[0] = 0;
    for (i = 1; i <= ArgCnt; i++) { if (i > 1) k = put(want_all, k, ","); k = put(want_all, k, orig[i]); }
    for (i = 0; i < 5; i++) want_par[i] = NULL;
    n_want = pc;
    for (i = 1; i <= ArgCnt; i++) {
        char* eq = NULL; int j;
        for (j = 0; j < 3 && orig[i][j]; j++) if (orig[i][j] == '=') { eq = &orig[i][j]; break; }
        if (eq) {
            int which = -1;
            if (eq == &orig[i][1] && orig[i][0] == 'P' && pc >= 1) which = 0;
            if (eq == &orig[i][1] && orig[i][0] == 'Q' && pc >= 2) which = 1;
            if (which < 0 || want_par[which]) errors++;           /* unknown keyword / parameter given twice */
            if (which >= 0) want_par[which] = eq + 1;
            keyword_seen = 1;
        } else if (keyword_seen) errors++;                          /* positional after keyword */
        else if (i <= pc) { if (orig[i][0]) { if (want_par[i - 1]) errors++; want_par[i - 1] = orig[i]; } }
        else { if (n_want < 5) want_par[n_want] = orig[i]; n_want++; }
    }
    for (i = 0; i < pc; i++) if (!want_par[i]) want_par[i] = dvt[i];
    { unsigned long e0 = g_err_cnt;
      ExpandMacro(&m);
      t = FirstInputTag;
      VPOST(t != NULL && t->IsMacro && t->Macro == &m && MacroNestLevel == 1, "C11: a macro call opens one macro input level");
      VPOST(seq(t->AllArgs, want_all), "C11: ALLARGS is the comma separated list of all arguments as passed, empty ones included");
      VPOST(t->NumArgs[0] == '0' + ArgCnt, "C11: ARGCOUNT is the number of arguments passed");
      VPOST((errors != 0) == (g_err_cnt != e0), "C11: unknown keyword, doubly given parameter and positional-after-keyword are errors; nothing else is");
      if (!errors) {
          r = t->Params;
          for (i = 0; i < 5; i++) {
              if (i < n_want) { VPOST(r != NULL && r->Content != NULL && seq(r->Content, want_par[i]), "C11: parameter i is the positional / keyword argument given for it, else its default; excess arguments follow in order"); if (r) r = r->Next; }
          }
          VPOST(r == NULL, "C11: the parameter list has one entry per formal parameter plus the excess arguments");
          VREACH("bound");
#if VERIF_PC >= 1 && VERIF_NARGS >= 1
          if (keyword_seen) VREACH("keyword");
#endif
#if VERIF_NARGS > VERIF_PC
          if (n_want > pc) VREACH("excess");
#endif
      }
#if VERIF_NARGS >= 1
      else VREACH("error");
#endif
    }
    VREACH("end");
}
