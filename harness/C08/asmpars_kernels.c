/* C08 harness: expression-evaluation kernels of the real /repo/asmpars.c under contract. */
#include "verif.h"
#include "contracts/function.contracts.h"
#include "contracts/asmpars.contracts.h"

long long g_x_i;
unsigned  gk_idx;

#include "asmpars.c" /* resolves to /repo/asmpars.c via -I */

void h_SingleBit(void) {
    long long in, out;
    Boolean   r;
    VND(in, i64);
    VND(out, i64);
    r = SingleBit(in, &out);
    VPOST((r != 0) == SPEC_ONEBIT(in), "C08: SingleBit true iff exactly one bit set");
    VPOST(!SPEC_ONEBIT(in) || SPEC_IS_FIRSTBIT(in, out), "C08: SingleBit position");
    VREACH("end");
}
