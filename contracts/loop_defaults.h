/* loop_defaults.h -- every VERIF_LOOP(name) anchor in /repo gets an empty expansion unless the
 * harness has already defined its loop contract.  Include directly before the real .c file. */
#ifndef VERIF_LOOP_as_passloop
#define VERIF_LOOP_as_passloop
#endif
#ifndef VERIF_LOOP_asmif_ifb
#define VERIF_LOOP_asmif_ifb
#endif
#ifndef VERIF_LOOP_asmif_case
#define VERIF_LOOP_asmif_case
#endif
#ifndef VERIF_LOOP_asmif_restore
#define VERIF_LOOP_asmif_restore
#endif
#ifndef VERIF_LOOP_toolutils_filterok
#define VERIF_LOOP_toolutils_filterok
#endif
#ifndef VERIF_LOOP_pbind_rec
#define VERIF_LOOP_pbind_rec
#endif
#ifndef VERIF_LOOP_pbind_copy
#define VERIF_LOOP_pbind_copy
#endif
#ifndef VERIF_LOOP_p2bin_fill
#define VERIF_LOOP_p2bin_fill
#endif
#ifndef VERIF_LOOP_p2bin_hdr
#define VERIF_LOOP_p2bin_hdr
#endif
#ifndef VERIF_LOOP_p2bin_sum
#define VERIF_LOOP_p2bin_sum
#endif
#ifndef VERIF_LOOP_p2bin_sum_inner
#define VERIF_LOOP_p2bin_sum_inner
#endif
#ifndef VERIF_LOOP_p2bin_copy
#define VERIF_LOOP_p2bin_copy
#endif
#ifndef VERIF_LOOP_p2bin_lane
#define VERIF_LOOP_p2bin_lane
#endif
#ifndef VERIF_LOOP_p2bin_rec
#define VERIF_LOOP_p2bin_rec
#endif
#ifndef VERIF_LOOP_p2bin_measure
#define VERIF_LOOP_p2bin_measure
#endif
#ifndef VERIF_LOOP_toolutils_filterlist
#define VERIF_LOOP_toolutils_filterlist
#endif
#ifndef VERIF_LOOP_asmcode_turn2
#define VERIF_LOOP_asmcode_turn2
#endif
#ifndef VERIF_LOOP_asmcode_turn4
#define VERIF_LOOP_asmcode_turn4
#endif
