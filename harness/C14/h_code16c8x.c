/* C14 harness: the PIC16C8x code generator of the real /repo/code16c8x.c against an independent reference of the
 * mid-range PIC instruction set (14-bit opcodes as in the Microchip PIC16C84 / PIC16F8X data sheets, not taken from the code).
 * The formula evaluator is an oracle constrained by its own contract (OK => value within the requested integer type). */
#include "verif.h"
#include <stdio.h>
#include <stdlib.h>
#include <string.h>
#include "stdinc.h"
#include "asmdef.h"
#include "asmsub.h"
#include "asmpars.h"
#include "asmitree.h"
#include "errmsg.h"
#include "stubs/gerr.h"

typedef struct { char const* name; Word code; InstProc proc; } tabent_t;
static tabent_t g_tab[64]; static int g_ntab;
void AddInstTable(PInstTable tab, char const* Name, Word Index, InstProc Proc) { (void)tab; if (g_ntab >= 0 && g_ntab < 64) { g_tab[g_ntab].name = Name; g_tab[g_ntab].code = Index; g_tab[g_ntab].proc = Proc; } g_ntab++; }
PInstTable CreateInstTable(int TableSize) { static TInstTable t; (void)TableSize; return &t; }
static long long g_ev_val[2]; static int g_ev_ok[2]; static unsigned g_ev_flags[2]; static int g_ev_calls; static int g_ev_type[2];
static long long type_max(IntType t) { return t == UInt1 ? 1 : t == UInt3 ? 7 : t == UInt9 ? 511 : t == Int8 ? 255 : t == Int16 ? 65535 : 0x7fffffff; }
static long long type_min(IntType t) { return t == Int8 ? -128 : t == Int16 ? -32768 : 0; }
LargeInt EvalStrIntExpressionWithResult(tStrComp const* pExpr, IntType Type, tEvalResult* pResult) {
    int k = g_ev_calls++ & 1; (void)pExpr;
    g_ev_type[k] = Type; pResult->OK = (Boolean)(g_ev_ok[k] != 0); pResult->Flags = (tSymbolFlags)g_ev_flags[k]; pResult->AddrSpaceMask = 0; pResult->DataSize = eSymbolSizeUnknown;
    VASSUME(!g_ev_ok[k] || (g_ev_val[k] >= type_min(Type) && g_ev_val[k] <= type_max(Type)));     /* contract of the evaluator */
    return g_ev_ok[k] ? g_ev_val[k] : -1;
}
LargeInt EvalStrIntExpressionWithFlags(tStrComp const* pExpr, IntType Type, Boolean* pResult, tSymbolFlags* pFlags) {
    tEvalResult r; LargeInt v = EvalStrIntExpressionWithResult(pExpr, Type, &r); *pResult = r.OK; if (pFlags) *pFlags = r.Flags; return v;
}
LargeInt EvalStrIntExpression(tStrComp const* pExpr, IntType Type, Boolean* pResult) { return EvalStrIntExpressionWithFlags(pExpr, Type, pResult, NULL); }
static int g_chkspace;
void ChkSpace(Byte AddrSpace, unsigned AddrSpaceMask) { (void)AddrSpace; (void)AddrSpaceMask; g_chkspace++; }
Boolean ChkRange(LargeInt Value, LargeInt Min, LargeInt Max) { if (Value < Min || Value > Max) { g_err_cnt++; g_err_last = ErrNum_OverRange; return False; } return True; }
static unsigned long long g_pc;
LargeWord ProgCounter(void) { return (LargeWord)g_pc; }
static int up(int c) { return (c >= 'a' && c <= 'z') ? c - 32 : c; }
int as_strcasecmp(char const* a, char const* b) { int i; for (i = 0; i < 8; i++) { int x = up((unsigned char)a[i]), y = up((unsigned char)b[i]); if (x != y) return x - y; if (!x) return 0; } return 0; }
#include "contracts/loop_defaults.h"
#include "code16c8x.c" /* the real /repo/code16c8x.c */

/* ---- reference: mid-range PIC instruction set ------------------------------------------------------------ */
enum { K_FIXED, K_LIT, K_ARI_W, K_ARI_F, K_BIT, K_F, K_JUMP };    /* ARI_W / ARI_F: byte-oriented with destination operand; the assembler's default when d is omitted */
typedef struct { char const* mn; unsigned short op; unsigned char kind; } ref_t;
static const ref_t ref[] = {
    {"ADDWF", 0x0700, K_ARI_W}, {"ANDWF", 0x0500, K_ARI_W}, {"CLRF", 0x0180, K_F}, {"CLRW", 0x0100, K_FIXED}, {"COMF", 0x0900, K_ARI_F}, {"DECF", 0x0300, K_ARI_F},
    {"DECFSZ", 0x0B00, K_ARI_F}, {"INCF", 0x0A00, K_ARI_F}, {"INCFSZ", 0x0F00, K_ARI_F}, {"IORWF", 0x0400, K_ARI_W}, {"MOVF", 0x0800, K_ARI_W}, {"MOVWF", 0x0080, K_F},
    {"NOP", 0x0000, K_FIXED}, {"RLF", 0x0D00, K_ARI_F}, {"RRF", 0x0C00, K_ARI_F}, {"SUBWF", 0x0200, K_ARI_W}, {"SWAPF", 0x0E00, K_ARI_F}, {"XORWF", 0x0600, K_ARI_W},
    {"BCF", 0x1000, K_BIT}, {"BSF", 0x1400, K_BIT}, {"BTFSC", 0x1800, K_BIT}, {"BTFSS", 0x1C00, K_BIT},
    {"ADDLW", 0x3E00, K_LIT}, {"ANDLW", 0x3900, K_LIT}, {"CALL", 0x2000, K_JUMP}, {"CLRWDT", 0x0064, K_FIXED}, {"GOTO", 0x2800, K_JUMP}, {"IORLW", 0x3800, K_LIT},
    {"MOVLW", 0x3000, K_LIT}, {"RETFIE", 0x0009, K_FIXED}, {"RETLW", 0x3400, K_LIT}, {"RETURN", 0x0008, K_FIXED}, {"SLEEP", 0x0063, K_FIXED}, {"SUBLW", 0x3C00, K_LIT},
    {"XORLW", 0x3A00, K_LIT}, {"OPTION", 0x0062, K_FIXED},
};
#define NREF ((int)(sizeof(ref) / sizeof(ref[0])))
static int str_eq(char const* a, char const* b) { int i; for (i = 0; i < 8; i++) { if (a[i] != b[i]) return 0; if (!a[i]) return 1; } return 1; }
static int find(char const* mn) { int k; for (k = 0; k < 64; k++) if (k < g_ntab && str_eq(g_tab[k].name, mn)) return k; return -1; }
void h_table(void) {
    int i;
    g_ntab = 0; InitFields();
    for (i = 0; i < NREF; i++) {
        int k = find(ref[i].mn); unsigned code;
        VPOST(k >= 0, "C14: every documented PIC16C8x mnemonic is known");
        code = g_tab[k].code;
        switch (ref[i].kind) {
        case K_FIXED: VPOST(g_tab[k].proc == DecodeFixed && code == ref[i].op, "C14: no-operand instructions have their documented 14-bit opcode"); break;
        case K_LIT: VPOST(g_tab[k].proc == DecodeLit && code == ref[i].op, "C14: literal instructions have their documented opcode"); break;
        case K_ARI_W: VPOST(g_tab[k].proc == DecodeAri && (code & 0x7fff) == ref[i].op && (code >> 15) == 0, "C14: byte-oriented file register instructions: documented opcode (destination W when d is omitted for the two-operand arithmetic)"); break;
        case K_ARI_F: VPOST(g_tab[k].proc == DecodeAri && (code & 0x7fff) == ref[i].op && (code >> 15) == 1, "C14: byte-oriented file register instructions: documented opcode (destination f when d is omitted for the read-modify-write ones)"); break;
        case K_BIT: VPOST(g_tab[k].proc == DecodeBit && code == ref[i].op, "C14: bit-oriented instructions have their documented opcode"); break;
        case K_F: VPOST(g_tab[k].proc == DecodeF && code == ref[i].op, "C14: CLRF/MOVWF have their documented opcode"); break;
        case K_JUMP: VPOST(g_tab[k].proc == DecodeJump && code == ref[i].op, "C14: CALL/GOTO have their documented opcode"); break;
        }
    }
    VREACH("end");
}

static char a1[4], a2[4], op[8]; static tStrComp args[3];
static void mk(void) {
    a1[0] = 'x'; a1[1] = 0; VND(a2[0], char); VND(a2[1], char); a2[2] = 0; op[0] = 'Q'; op[1] = 0;
    args[1].str.p_str = a1; args[1].str.capacity = 4; args[2].str.p_str = a2; args[2].str.capacity = 4; ArgStr = args; OpPart.str.p_str = op;
    WAsmCode = malloc(16); VASSUME(WAsmCode != NULL); WAsmCode[0] = WAsmCode[1] = WAsmCode[2] = 0x5555; CodeLen = 0;
    VND(g_ev_val[0], i64); VND(g_ev_val[1], i64); VND(g_ev_ok[0], int); VND(g_ev_ok[1], int); VND(g_ev_flags[0], uint); VND(g_ev_flags[1], uint); g_ev_calls = 0;
    g_ev_flags[0] &= ~(unsigned)eSymbolFlag_FirstPassUnknown; g_ev_flags[1] &= ~(unsigned)eSymbolFlag_FirstPassUnknown;
    VND(g_err_cnt, ulong); VASSUME(g_err_cnt < 1000000); VND(g_pc, u64); VASSUME(g_pc <= 0x1fff); g_chkspace = 0;
    SegLimits = malloc(SegCountPlusStruct * sizeof(LargeWord)); VASSUME(SegLimits != NULL); SegLimits[SegCode] = 0x1fff + AddCodeSpace; ActPC = SegCode;
}
void h_DecodeFixed(void) {
    unsigned c; unsigned long ec; mk(); VND(ArgCnt, int); VASSUME(ArgCnt >= 0 && ArgCnt <= 2); VND(c, uint); VASSUME(c <= 0x3fff); ec = g_err_cnt;
    DecodeFixed((Word)c);
    if (ArgCnt == 0) { VPOST(CodeLen == 1 && WAsmCode[0] == c && g_err_cnt == ec, "C14: a no-operand instruction is its one opcode word"); VREACH("ok"); }
    else { VPOST(CodeLen == 0 && g_err_cnt == ec + 1, "C14: operands on a no-operand instruction are rejected"); VREACH("rej"); }
}
void h_DecodeLit(void) {
    unsigned c; mk(); ArgCnt = 1; VND(c, uint); VASSUME((c & 0xff) == 0 && c <= 0x3f00);
    DecodeLit((Word)c);
    VPOST(g_ev_calls == 1 && g_ev_type[0] == Int8, "C14: the literal is evaluated as an 8-bit value (signed or unsigned; others are rejected by the evaluator)");
    if (g_ev_ok[0]) { VPOST(CodeLen == 1 && WAsmCode[0] == (c | ((unsigned)g_ev_val[0] & 0xff)), "C14: literal instructions carry the 8-bit literal in the low byte"); VREACH("ok"); }
    else { VPOST(CodeLen == 0, "C14: no code for a rejected literal"); VREACH("rej"); }
}
void h_DecodeAri(void) {
    unsigned c, dflt; int dsel = -1; mk(); VND(ArgCnt, int); VASSUME(ArgCnt >= 1 && ArgCnt <= 2); VND(c, uint); VND(dflt, uint); VASSUME((c & 0xff) == 0 && c <= 0x0f00 && dflt <= 1);
    /* destination operand: W / 0 -> W register, F / 1 -> file register */
    if (ArgCnt == 1) dsel = (int)dflt;
    else if (up(a2[0]) == 'W' && a2[1] == 0) dsel = 0;
    else if (up(a2[0]) == 'F' && a2[1] == 0) dsel = 1;
    DecodeAri((Word)(c | (dflt << 15)));
    if (g_ev_ok[0] && dsel >= 0) {
        VPOST(g_ev_type[0] == UInt9, "C14: the file register address is evaluated as a 9-bit data address");
        VPOST(CodeLen == 1 && WAsmCode[0] == (c | ((unsigned)dsel << 7) | ((unsigned)g_ev_val[0] & 0x7f)), "C14: byte-oriented instructions: opcode | d << 7 | f (7 bits within the bank)");
        VREACH("ok");
    } else if (g_ev_ok[0] && ArgCnt == 2 && g_ev_ok[1]) {
        VPOST(g_ev_type[1] == UInt1 && CodeLen == 1 && WAsmCode[0] == (c | ((unsigned)g_ev_val[1] << 7) | ((unsigned)g_ev_val[0] & 0x7f)), "C14: a numeric destination 0/1 selects W / f");
        VREACH("num");
    } else { VPOST(CodeLen == 0, "C14: no code when an operand is rejected"); VREACH("rej"); }
}
void h_DecodeBit(void) {
    unsigned c; mk(); ArgCnt = 2; VND(c, uint); VASSUME(c == 0x1000 || c == 0x1400 || c == 0x1800 || c == 0x1c00);
    DecodeBit((Word)c);
    if (g_ev_ok[0] && g_ev_ok[1]) {
        VPOST(g_ev_type[0] == UInt3 && g_ev_type[1] == UInt9, "C14: bit number 0..7 and a 9-bit file address (larger values are rejected by the evaluator)");
        VPOST(CodeLen == 1 && WAsmCode[0] == (c | ((unsigned)g_ev_val[0] << 7) | ((unsigned)g_ev_val[1] & 0x7f)), "C14: bit-oriented instructions: opcode | b << 7 | f");
        VREACH("ok");
    } else { VPOST(CodeLen == 0, "C14: no code when the bit number or the address is rejected"); VREACH("rej"); }
}
void h_DecodeF(void) {
    unsigned c; mk(); ArgCnt = 1; VND(c, uint); VASSUME(c == 0x0180 || c == 0x0080);
    DecodeF((Word)c);
    if (g_ev_ok[0]) { VPOST(CodeLen == 1 && WAsmCode[0] == (c | ((unsigned)g_ev_val[0] & 0x7f)) && g_ev_type[0] == UInt9, "C14: CLRF/MOVWF: opcode | f"); VREACH("ok"); }
    else { VPOST(CodeLen == 0, "C14: no code for a rejected address"); VREACH("rej"); }
}
void h_DecodeJump(void) {
    unsigned c, a; unsigned long ec; mk(); ArgCnt = 1; VND(c, uint); VASSUME(c == 0x2000 || c == 0x2800); ec = g_err_cnt;
    DecodeJump((Word)c);
    a = (unsigned)g_ev_val[0] & 0xffff;
    if (g_ev_ok[0] && a <= 0x1fff) {
        /* the 11-bit field addresses a location within the 2K page selected by PCLATH<4:3>; when the target lies in another page than the
         * instruction, the assembler first sets those bits (BCF/BSF PCLATH,3 / PCLATH,4 = 01 0/1 bbb fffffff with f = 0Ah) */
        int n = 0; unsigned diff = ((unsigned)g_pc ^ a) & 0x1800;
        if (diff & 0x800) { VPOST(WAsmCode[n] == (((a & 0x800) ? 0x1400u : 0x1000u) | (3u << 7) | 0x0a), "C14: a target in another 2K page: PCLATH bit 3 is set/cleared to the target's bit 11 first"); n++; }
        if (diff & 0x1000) { VPOST(WAsmCode[n] == (((a & 0x1000) ? 0x1400u : 0x1000u) | (4u << 7) | 0x0a), "C14: ... and PCLATH bit 4 to the target's bit 12"); n++; }
        VPOST(CodeLen == n + 1 && WAsmCode[n] == (c | (a & 0x7ff)) && g_err_cnt == ec, "C14: CALL/GOTO: opcode | low 11 bits of the target, which together with PCLATH<4:3> decode to the target address");
        VREACH("ok");
    } else if (g_ev_ok[0]) { VPOST(CodeLen == 0 && g_err_cnt == ec + 1, "C14: a target outside the program memory is rejected instead of being truncated"); VREACH("range"); }
    else { VPOST(CodeLen == 0, "C14: no code for a rejected target"); VREACH("rej"); }
}
