"""C14 -- machine instructions encode as the instruction set defines (shared range-rejection path only)"""
from vdriver import G
LEVEL = "other"
SRC = "harness/C13/h_asmpars_sym.c"
GROUPS = []
for e, fns, uw in [("IntTypeDefs", ["asmpars_init", "RangeCheck"], 70), ("EvalStrInt_range", ["EvalStrIntExpressionWithResult", "RangeCheck", "asmpars_init"], 70)]:
    GROUPS.append(G("rng_" + e, SRC, "h_" + e, enforce=[], link=["asmdef.c", "tempresult.c", "nonzstring.c", "bpemu.c"], stubs=["stubs/gerr.c"],
                    unwind=uw, timeout=600, dfcc=False, object_bits=12, defs=["-DSTRINGSIZE=64"], functions=fns,
                    replace_calls=["EvalStrExpression:verif_EvalStrExpression"]))
H4 = "harness/C14/h_code4004.c"
for e, fns, uw, bd in [("table", ["InitFields"], 100, None),
                       ("DecodeFixed", ["DecodeFixed"], 8, None),
                       ("DecodeOneReg", ["DecodeOneReg", "DecodeReg", "DecodeRegCore", "RegVal"], 10, "operand text of at most 6 characters"),
                       ("DecodeOneRReg", ["DecodeOneRReg", "DecodeRReg", "DecodeRRegCore", "DecodeRegCore", "RegVal"], 10, "operand text of at most 6 characters"),
                       ("DecodeImm4", ["DecodeImm4"], 8, None), ("DecodeFullJmp", ["DecodeFullJmp"], 8, None),
                       ("DecodeISZ", ["DecodeISZ", "DecodeReg"], 10, "register operand text of at most 6 characters"),
                       ("DecodeJCN", ["DecodeJCN"], 10, "condition text of at most 4 characters"),
                       ("DecodeFIM", ["DecodeFIM", "DecodeRReg"], 10, "pair operand text of at most 4 characters")]:
    GROUPS.append(G("i4004_" + e, H4, "h_" + e, enforce=[], link=["bpemu.c"], stubs=["stubs/gerr.c"], unwind=uw, timeout=600, dfcc=False, drop_unused=True,
                    object_bits=12, defs=["-DSTRINGSIZE=64"], functions=fns, bounded=bd))
TRUSTED_BASE = ["formula parser replaced by an oracle returning an arbitrary integer and flags (goto-instrument --replace-calls)",
                "code4004 harness: formula evaluator = oracle constrained by its contract (OK => value within the requested integer type; that contract is the obligation rng_EvalStrInt_range), register-alias lookup = oracle, instruction hash table = logging stub",
                "the reference 4004/4040 opcode table in harness/C14/h_code4004.c was written from the Intel MCS-4 / MCS-40 documentation"]
ASSUMPTIONS = ["each code generator passes the integer type of its field to EvalStrIntExpression (checked for the 4004 handlers only)"]
NOT_COVERED = ["every instruction handler of code65.c, code85.c, codez80.c, codemsp.c, code16c8x.c, codeavr.c (opcode/operand encodings) -- six of the seven ISAs named in the property",
               "4004: DATA/DS pseudo instructions, register symbols defined with REG"]
EXPLANATION = ("Decided: (1) the shared half of the property for every target: an operand value outside the range of the integer type its field is evaluated with is rejected with an "
               "error (never silently truncated), a fitting value is passed on unchanged, the type table holds the documented ranges; (2) for the Intel 4004/4040 the whole code "
               "generator: the instruction table against an independent opcode table, and every operand form (register and register-pair syntax, 4-bit and 8-bit immediates, 12-bit "
               "jump targets, page rule of ISZ/JCN) against the manufacturer's encoding. The other six instruction sets named in the property are not under contract.")
MANIFEST = dict(
    category="other",
    text="(1) Shared range-rejection path for all targets: integer type table built by asmpars_init and the tail of EvalStrIntExpressionWithResult (fits => unchanged, outside => "
         "error and -1, first-pass placeholders masked) verified on the real code with the formula parser replaced by an oracle. (2) Intel 4004/4040 (code4004.c) completely: every "
         "documented mnemonic is in the instruction table with its documented opcode, operand form and minimum CPU (independent reference table); DecodeFixed/OneReg/OneRReg/AccReg "
         "path/Imm4/FullJmp/ISZ/JCN/FIM produce exactly the manufacturer's bytes for every operand (register names R0..RF/R00..R15, pairs RnP and R<2n>R<2n+1>, immediates through "
         "the 4-/8-/12-bit types), reject everything else with an error and no code, and apply the next-instruction page rule to ISZ and JCN. The other six ISAs named in the property "
         "are NOT covered.",
    note="Operand texts are bounded to 6 characters (register parsers are loop-bounded by the syntax itself). Trusted: evaluator and alias oracles, the reference opcode table. One defect "
         "found and repaired (ISZ page rule).",
)
