/* C02/C20 harness: the real /repo/asmerr.c with ghost output channels */
#include "verif.h"
#include "contracts/asmerr.contracts.h"
#include "stdinc.h"
#include "asmsub.h"
#include "console.h"
#include "ioerrs.h"
#include "nlmessages.h"
#include "stdhandl.h"
#include "strutil.h"
#include <string.h>
#include <stdlib.h>
#include <unistd.h>

unsigned long g_lst_lines, g_err_lines, g_con_lines;
int           g_exit_code;
unsigned long g_o_errc, g_o_warnc;
int           gk_num;
int           g_unlink_out;
static int    g_fatal_expected, g_errfile_open;
static FILE   g_file_obj;

/* ---- environment ---- */
#include "asmpars.h"
#include "stubs/gerr.h"
static int g_ev_seq[4], g_ev_ok_seq[4], g_ev_idx;
LargeInt EvalStrIntExpression(const struct sStrComp* pExpr, IntType Type, Boolean* pResult) {
    int i = g_ev_idx++;
    (void)pExpr; (void)Type;
    if (i < 0 || i > 3) i = 3;
    *pResult = (Boolean)(g_ev_ok_seq[i] != 0);
    return (LargeInt)g_ev_seq[i];
}
Boolean ChkArgCntExtPos(int ThisCnt, int MinCnt, int MaxCnt, const struct sLineComp* pComp) {
    (void)pComp;
    return (Boolean)!((ThisCnt < MinCnt) || (ThisCnt > MaxCnt));
}
static char msg_buf[4];
char* getmessage(int Num) { (void)Num; return msg_buf; }
char* GetErrorMsg(int number) { (void)number; return msg_buf; }
static char pos_txt[3];
char* GetErrorPos(void) {
    Boolean has;
    char*   p;
    VND(has, uchar);
    if (!has) return NULL;
    p = malloc(3);
    VASSUME(p != NULL);
    p[0] = 'f'; VND(p[1], char); p[2] = 0;
    VASSUME(p[1] == ' ' || p[1] == 0 || p[1] == ')');
    return p;
}
/* a listing line is only written while LISTING is on and the listing does not go to the null device (guard of the real WrLstLine, asmsub.c) */
void WrLstLine(char const* Line) { (void)Line; if (ListOn != 0 && !ListToNull) g_lst_lines++; }
void WrConsoleLine(char const* pLine, Boolean NewLine) { (void)pLine; (void)NewLine; g_con_lines++; }
void OpenWithStandard(FILE** ppFile, char* Path) { (void)Path; if (g_errfile_open) *ppFile = &g_file_obj; else *ppFile = NULL; }
void CloseIfOpen(FILE** ppFile) { *ppFile = NULL; }
char TabCompressed(char in) { return (in == '\t') ? ' ' : in; }
/* bounded string helpers (the message text is not part of the property) */
size_t strmaxcat(char* Dest, char const* Src, size_t MaxLen) { (void)Src; (void)MaxLen; Dest[0] = Dest[0]; return 0; }
size_t strmaxcpy(char* dest, char const* src, size_t Max) { if (Max > 1) { dest[0] = src[0]; dest[1] = 0; return 1; } return 0; }
static int verif_snprintf0(char* d, size_t n) { if (n) d[0] = 0; return 0; }
#define as_snprintf(d, n, ...) verif_snprintf0((d), (n))
static int verif_fprintf0(FILE* f) { if (f == &g_file_obj || f == stdout) g_err_lines++; return 1; }
#define fprintf(f, ...) verif_fprintf0(f)
static int verif_unlink(char const* name) { if (name == OutName) g_unlink_out++; return 0; }
#define unlink(n) verif_unlink(n)
/* exit monitor: status and circumstances are checked here, then the path ends */
static void verif_exit(int code) {
    g_exit_code = code;
    VASSERT(code == 3, "C02: a fatal diagnostic ends the run with status 3");
    VASSERT(g_fatal_expected, "C02: the run is aborted only for a fatal error or when the error limit is reached");
    VASSERT(!CodeOutput || g_unlink_out == 1, "C02: a fatal stop removes the code file");
    VREACH("exit");
    VASSUME(0);
}
#define exit(c) verif_exit(c)

#include "asmerr.c" /* the real /repo/asmerr.c */
#undef exit
#undef fprintf
#undef unlink
#undef as_snprintf

static char oneline_buf[4], name_buf[12], lstname_buf[12];
static void mk_env(void) {
    VND_BYTES(msg_buf, 4); msg_buf[3] = 0;
    VND_BYTES(oneline_buf, 4); oneline_buf[3] = 0;
    OneLine.p_str = oneline_buf; OneLine.capacity = 4;
    VND(GNUErrors, uchar); VND(TreatWarningsAsErrors, uchar); VND(ExtendErrors, uchar);
    VASSUME(GNUErrors <= 1 && TreatWarningsAsErrors <= 1 && ExtendErrors <= 2);
    VND(ListOn, uchar);
    VND(MaxErrors, uint);
    VND(ErrorCount, uint); VND(WarnCount, uint);
    VASSUME(ErrorCount < 0xffffffffu && WarnCount < 0xffffffffu);
    /* listing name: "/dev/null", "!1" or something else */
    { int k; VND(k, int); VASSUME(k >= 0 && k <= 2);
      if (k == 0) strcpy(lstname_buf, "/dev/null"); else if (k == 1) strcpy(lstname_buf, "!1"); else strcpy(lstname_buf, "x.lst"); }
    LstName = lstname_buf;
    /* as.c sets both flags from the name when the listing name is fixed */
    ListToStdout = !strcmp(LstName, "!1");
    ListToNull   = !strcmp(LstName, "/dev/null");
    ErrorName = name_buf; OutName = name_buf + 6; ShareName = name_buf + 7; MacProName = name_buf + 8; MacroName = name_buf + 9;
    { Boolean open; VND(open, uchar); ErrorFile = (open & 1) ? &g_file_obj : NULL; }
    VND(g_errfile_open, int);
    LstFile = NULL; ShareFile = NULL; MacProFile = NULL; MacroFile = NULL; Debug = NULL; PrgFile = NULL;
    VND(ShareMode, uchar); VND(MacProOutput, uchar); VND(MacroOutput, uchar); VND(MakeDebug, uchar); VND(CodeOutput, uchar);
    VND(g_lst_lines, ulong); VND(g_err_lines, ulong); VND(g_con_lines, ulong);
    VASSUME(g_lst_lines < 1000000 && g_err_lines < 1000000 && g_con_lines < 1000000);
    g_exit_code = -1; g_unlink_out = 0;
    g_o_errc = ErrorCount; g_o_warnc = WarnCount;
}

void h_WrErrorString(void) {
    Boolean warn, fatal, has_ext, has_comp;
    struct sLineComp comp;
    char             m[3], a[2], e[3];
    unsigned long    lines;
    mk_env();
    VND(warn, uchar); VND(fatal, uchar); VND(has_ext, uchar); VND(has_comp, uchar);
    VASSUME(warn <= 1 && fatal <= 1);
    VND(comp.StartCol, int); VND(comp.Len, uint);
    VASSUME(comp.StartCol >= 0 && comp.StartCol <= 2 && comp.Len <= 2);
    m[0] = 'm'; m[1] = 0; a[0] = 0; e[0] = 'e'; e[1] = 0;
    g_fatal_expected = fatal || (MaxErrors && !IS_WARNING(warn, fatal) && ErrorCount + 1 >= MaxErrors) ||
                       (MaxErrors && IS_WARNING(warn, fatal) && ErrorCount >= MaxErrors);
    lines = g_lst_lines + g_err_lines + g_con_lines;
    WrErrorString(m, a, warn, fatal, (has_ext & 1) ? e : NULL, (has_comp & 1) ? &comp : NULL);
    VPOST(IS_WARNING(warn, fatal) ? (WarnCount == g_o_warnc + 1 && ErrorCount == g_o_errc) : (ErrorCount == g_o_errc + 1 && WarnCount == g_o_warnc),
          "C02: a diagnostic moves exactly one counter by one (warning unless -Werror)");
    VPOST(g_lst_lines + g_err_lines + g_con_lines > lines, "C02: every counted diagnostic is emitted to listing, error file or console");
    VPOST(!fatal && !(MaxErrors && ErrorCount >= MaxErrors), "C02: a fatal diagnostic or the error limit does not return");
    VREACH("end");
}

/* ---- WrXErrorPos: suppression rules and EXPECT list (bounded: at most 3 announced numbers) ---- */
static int count_expect(int num) {
    int n = 0;
    tExpectError* p = pExpectErrors;
    if (p) { if ((int)p->Num == num) n++; p = p->pNext; }
    if (p) { if ((int)p->Num == num) n++; p = p->pNext; }
    if (p) { if ((int)p->Num == num) n++; p = p->pNext; }
    return n;
}
static int len_expect(void) {
    int n = 0;
    tExpectError* p = pExpectErrors;
    if (p) { n++; p = p->pNext; }
    if (p) { n++; p = p->pNext; }
    if (p) { n++; p = p->pNext; }
    return n;
}
static void mk_expect(void) {
    int n, i;
    VND(n, int);
    VASSUME(n >= 0 && n <= 3);
    pExpectErrors = NULL;
    for (i = 0; i < 3; i++) {
        if (i < n) {
            tExpectError* e = malloc(sizeof(*e));
            int           num;
            VASSUME(e != NULL);
            VND(num, int);
            VASSUME(num >= 0 && num <= 65535);
            e->Num = (tErrorNum)num;
            e->pNext = pExpectErrors;
            pExpectErrors = e;
        }
    }
    VND(InExpect, uchar);
    VASSUME(InExpect <= 1);
}

void h_WrXErrorPos(void) {
    int num, cnt_num, cnt_wit, len; LongInt jmp0;
    mk_env();
    mk_expect();
    VND(num, int);
    VASSUME(num >= 0 && num <= 65535);
    VND(gk_num, int);
    VASSUME(gk_num >= 0 && gk_num <= 65535);
    VND(SuppWarns, uchar); VND(NumericErrors, uchar); VND(Repass, uchar); VND(JmpErrors, int);
    VASSUME(JmpErrors >= 0 && JmpErrors < 32767); /* assumed: fewer than 32767 jump-distance errors per pass (16-bit counter) */
    cnt_num = count_expect(num); cnt_wit = count_expect(gk_num); len = len_expect();
    g_fatal_expected = (num >= 10000) || MaxErrors;
    /* jump-distance errors that may vanish in the next pass are remembered in JmpErrors so that
     * the symbol table can take them back (ErrorCount -= JmpErrors): never more than were counted */
    VASSUME((unsigned long)(long)JmpErrors <= ErrorCount);
    jmp0 = JmpErrors;
    WrXErrorPos((tErrorNum)num, NULL, NULL);
    VPOST(JmpErrors >= 0 && (unsigned long)(long)JmpErrors <= ErrorCount, "C02: no more jump errors are set aside than errors were counted (ErrorCount -= JmpErrors cannot underflow)");
    VPOST(JmpErrors == jmp0 || (JmpErrors == jmp0 + 1 && ErrorCount == g_o_errc + 1 && !Repass && (num == ErrNum_TargOnDiffPage || num == ErrNum_JmpDistTooBig)),
          "C02: only a reported jump-distance error of a pass that is still final is set aside");
    if (cnt_num > 0) {
        VPOST(ErrorCount == g_o_errc && WarnCount == g_o_warnc, "C20: an announced (EXPECTed) message is suppressed");
        VPOST(count_expect(num) == cnt_num - 1 && len_expect() == len - 1, "C20: an occurring message consumes exactly one announcement");
        VPOST(gk_num == num || count_expect(gk_num) == cnt_wit, "C20: other announcements stay");
        VREACH("expected");
    } else {
        VPOST(len_expect() == len && count_expect(gk_num) == cnt_wit, "C20: a message that was not announced leaves the announcements alone");
        if ((!CodeOutput && num == ErrNum_UnknownInstruction) || (SuppWarns && num < 1000)) {
            VPOST(ErrorCount == g_o_errc && WarnCount == g_o_warnc, "C02: suppressed diagnostics are not counted");
            VREACH("suppressed");
        } else {
            VPOST((num < 1000 && !TreatWarningsAsErrors) ? (WarnCount == g_o_warnc + 1 && ErrorCount == g_o_errc)
                                                         : (ErrorCount == g_o_errc + 1 && WarnCount == g_o_warnc),
                  "C02: numbers below 1000 count as warnings, all others as errors");
            VPOST(num < 10000, "C02: numbers from 10000 are fatal and do not return");
            VREACH("reported");
        }
    }
}

/* ---- EXPECT / ENDEXPECT / pass init+exit (C20) ---- */
static tStrComp e_args[4];
static char     e_txt[4][2];
void h_CodeEXPECT(void) {
    int i, before_len, before_wit, expect_add = 0;
    Boolean was_in;
    mk_env();
    mk_expect();
    VASSUME(InExpect || pExpectErrors == NULL); /* announcements exist only inside EXPECT */
    VND(ArgCnt, int);
    VASSUME(ArgCnt >= 0 && ArgCnt <= 3);
    for (i = 0; i < 4; i++) { e_txt[i][0] = 'x'; e_txt[i][1] = 0; e_args[i].str.p_str = e_txt[i]; VND(g_ev_seq[i], int); VND(g_ev_ok_seq[i], int);
                              VASSUME(g_ev_seq[i] >= 0 && g_ev_seq[i] <= 65535); }
    ArgStr = e_args; OpPart.str.p_str = e_txt[0];
    g_ev_idx = 0;
    VND(gk_num, int);
    VASSUME(gk_num >= 0 && gk_num <= 65535);
    VND(SuppWarns, uchar); VND(NumericErrors, uchar); VND(Repass, uchar); JmpErrors = 0;
    VASSUME(len_expect() == 0 || InExpect); /* keep the list short enough for the bounded walk */
    VASSUME(!InExpect || len_expect() == 0 || ArgCnt == 0 || 1);
    before_len = len_expect(); before_wit = count_expect(gk_num); was_in = InExpect;
    g_fatal_expected = MaxErrors != 0;
    VASSUME(before_len == 0);
    for (i = 0; i < ArgCnt; i++) if (g_ev_ok_seq[i] && g_ev_seq[i] == gk_num) expect_add++;
    CodeEXPECT(0);
    if (ArgCnt >= 1 && !was_in) {
        VPOST(InExpect, "C20: EXPECT opens an announcement block");
        VPOST(count_expect(gk_num) == before_wit + expect_add, "C20: EXPECT announces each evaluated number exactly once");
        VPOST(ErrorCount == g_o_errc && WarnCount == g_o_warnc, "C20: EXPECT itself reports nothing");
        VREACH("open");
    } else {
        VPOST(count_expect(gk_num) == before_wit && InExpect == was_in, "C20: a rejected EXPECT announces nothing");
        VPOST(ArgCnt < 1 || (ErrorCount == g_o_errc + 1 && WarnCount == g_o_warnc), "C20: nested EXPECT is an error");
        VREACH("rejected");
    }
}

void h_CodeENDEXPECT(void) {
    int len; Boolean was_in;
    mk_env();
    mk_expect();
    VASSUME(MaxErrors == 0);
    ArgCnt = 0; OpPart.str.p_str = e_txt[0]; e_txt[0][0] = 'x'; e_txt[0][1] = 0;
    VND(SuppWarns, uchar); VND(NumericErrors, uchar); VND(Repass, uchar); JmpErrors = 0;
    VASSUME(!SuppWarns);
    len = len_expect(); was_in = InExpect;
    g_fatal_expected = 0;
    VASSUME(ErrorCount < 0xfffffff0u);
    /* announcing the "expected error did not occur" message itself is excluded: its
     * report at ENDEXPECT then (consistently) consumes that announcement */
    VASSUME(count_expect(ErrNum_ExpectedError) == 0 && count_expect(ErrNum_MissingEXPECT) == 0);
    CodeENDEXPECT(0);
    if (was_in) {
        VPOST(!InExpect && pExpectErrors == NULL, "C20: ENDEXPECT closes the block and empties the announcements");
        VPOST(ErrorCount == g_o_errc + (unsigned)len, "C20: ENDEXPECT reports every announced message that did not occur");
        VREACH("close");
    } else {
        VPOST(ErrorCount == g_o_errc + 1 && len_expect() == len, "C20: ENDEXPECT without EXPECT is an error");
        VREACH("missing");
    }
}

void h_AsmErrPassInit(void) {
    mk_env();
    mk_expect();
    AsmErrPassInit();
    VPOST(ErrorCount == 0 && WarnCount == 0 && pExpectErrors == NULL && !InExpect, "C02: every pass starts with zero counters and no announcements");
    VREACH("end");
}

void h_AsmErrPassExit(void) {
    Boolean was_in;
    mk_env();
    mk_expect();
    VASSUME(MaxErrors == 0);
    VND(SuppWarns, uchar); VND(NumericErrors, uchar); VND(Repass, uchar); JmpErrors = 0;
    was_in = InExpect;
    g_fatal_expected = 0;
    VASSUME(count_expect(ErrNum_MissingENDEXPECT) == 0);
    AsmErrPassExit();
    VPOST(!was_in || ErrorCount == g_o_errc + 1, "C20: a missing ENDEXPECT is reported at the end of the pass");
    VPOST(was_in || (ErrorCount == g_o_errc && WarnCount == g_o_warnc), "C20: pass exit without open EXPECT reports nothing");
    VPOST(pExpectErrors == NULL && !InExpect, "C20: no announcement survives the pass");
    VREACH("end");
}
