"""C19 -- listing, debug map and share file state the facts of the code file (kernel)"""
from vdriver import G
LEVEL = "other"
GROUPS = []
GROUPS.append(G("dbg_AddLineInfo", "harness/C19/h_asmdebug.c", "h_AddLineInfo", enforce=[], link=["asmdef.c"], stubs=["stubs/gerr.c"], unwind=8, timeout=600,
                dfcc=False, object_bits=12, defs=["-DSTRINGSIZE=64"], functions=["AddLineInfo"], bounded="existing list of at most 2 records; MAP mode (one record per line)"))
GROUPS.append(G("dbg_WriteCode", "harness/C04/h_as_writecode.c", "h_WriteCode", enforce=[], link=["asmdef.c"], stubs=["stubs/gerr.c"], unwind=14, timeout=600,
                functions=["WriteCode"], object_bits=12, dfcc=False, defs=["-DSTRINGSIZE=64"]))
GROUPS.append(G("book_BookKeeping", "harness/C19/h_asmsub.c", "h_BookKeeping", enforce=[], link=[], stubs=["stubs/gerr.c"], unwind=4, timeout=300,
                dfcc=False, object_bits=12, functions=["BookKeeping", "ProgCounter"]))
GROUPS.append(G("line_GenerateProcessor", "harness/C20/h_as_include.c", "h_GenerateProcessor", enforce=[], link=["asmdef.c", "strcomp.c"], stubs=["stubs/gerr.c"], unwind=8, timeout=600, dfcc=False,
                object_bits=12, defs=["-DSTRINGSIZE=64"], functions=["GenerateProcessor"], note="the line number a MAP entry / listing line of a macro body carries is StartLine (+ body line): see C20"))
GROUPS.append(G("lst_MakeList", "harness/C19/h_asmlist.c", "h_MakeList", enforce=[], link=[], stubs=["stubs/gerr.c"], unwind=15, unwindset=["MakeList.0:8", "MakeList.1:14"], flags=["--slice-formula"], timeout=900, dfcc=False, drop_unused=True,
                object_bits=12, defs=["-DSTRINGSIZE=64"], functions=["MakeList"],
                bounded="lines of 0..12 code bytes; every (granularity, listing granularity) pair set up by the code generators; column widths of any radix"))
GROUPS.append(G("shr_CodeSHARED", "harness/C10/h_asmallg.c", "h_CodeSHARED", enforce=[], link=["asmdef.c", "tempresult.c"], stubs=["stubs/gerr.c"], unwind=8, timeout=600, dfcc=False, drop_unused=True,
                object_bits=12, defs=["-DVERIF_SHARED"], functions=["CodeSHARED", "IntLine"], bounded="one or two arguments, integer symbols (float / string values not explored), no comment"))
TRUSTED_BASE = ["GetFileNum / AddAddressRange logging stubs", "stubs of h_as_writecode.c"]
ASSUMPTIONS = []
NOT_COVERED = ["WrLstLine (page-width splitting; a harness exists in harness/C19/h_asmsub.c under VERIF_WRLST but exhausts 14 GB even for 2-character lines, not registered)", "MakeList for lines of more than 12 bytes (bounded) and of more than 65535 bytes (16-bit EffLen)", "PrintSymbolList / PrintDebSymbols (symbol values in listing and MAP file); SHARED with float / string symbols and comments", "BookKeeping (asmsub.c) argument passing", "Atmel/NoICE debug formats"]
EXPLANATION = ("Kernel only: WriteCode hands the line's segment, start address and length to the bookkeeping before the counter advances, and AddLineInfo "
               "stores exactly one (segment, file, line, address) record per line without losing earlier ones. The listing columns and the symbol "
               "sections of listing/MAP/share file are not under contract.")
MANIFEST = dict(
    category="other",
    text="Contracts on the kernel: WriteCode (bookkeeping sees segment/address/length of the line before the program counter moves, same address the "
         "code-file writer sees) and AddLineInfo (exactly one MAP record with the line's segment, file, line and address; earlier records kept), BookKeeping (usage map, section usage and debug records all get the LOAD address of the line) and GenerateProcessor (macro / repetition levels start from the calling line). "
         "MakeList (bounded: lines of <= 12 bytes): every listing line shows the address of the first code unit printed on it and the line's code is shown completely, in order, each unit once, for every (granularity, listing granularity) pair and every column width. SHARED (share file): one line per argument that names a defined symbol, with the name, the value the symbol table holds and the syntax of the share-file mode, in argument order. The symbol tables of listing and MAP file are named unverified.",
    note="Bounded: debug list <= 2 earlier records. Trusted: logging stubs.",
)
