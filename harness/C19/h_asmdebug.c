/* C19 harness: debug-info records of the real /repo/asmdebug.c (MAP file 'line:address' entries) */
#include "verif.h"
#include <stdio.h>
#include <stdlib.h>
#include <string.h>
#include "stdinc.h"
#include "asmdef.h"
#include "asmsub.h"
#include "asmfnums.h"
#include "stubs/gerr.h"

static int g_fnum, g_range_calls; static long long g_range_adr, g_range_len;
Integer GetFileNum(char* Name) { (void)Name; return (Integer)g_fnum; }
void    AddAddressRange(int File, LargeWord Start, LargeWord Len) { (void)File; g_range_calls++; g_range_adr = (long long)Start; g_range_len = (long long)Len; }
static int mon0(void) { return 0; }
#define fprintf(...) mon0()
#define printf(...) mon0()
#include "contracts/loop_defaults.h"
#include "asmdebug.c" /* the real /repo/asmdebug.c */

static PLineInfoList mk_node(PLineInfoList next) {
    PLineInfoList n = malloc(sizeof(TLineInfoList));
    VASSUME(n != NULL);
    n->Next = next;
    VND(n->Contents.Space, schar); VND(n->Contents.FileName, short); VND(n->Contents.Address, i64); VND(n->Contents.LineNum, int);
    return n;
}

/* one code-bearing line adds one record (segment, file, line, address); nothing is lost */
void h_AddLineInfo(void) {
    int depth, found = 0, cnt = 0, olda = 0, oldb = 0; PLineInfoList a = NULL, b = NULL, r; long long adr, len; int line; ShortInt space; char fn[2];
    VND(depth, int); VASSUME(depth >= 0 && depth <= 2);
    LineInfoRoot = NULL;
    if (depth >= 2) b = LineInfoRoot = mk_node(NULL);
    if (depth >= 1) a = LineInfoRoot = mk_node(LineInfoRoot);
    VND(adr, i64); VND(len, i64); VND(line, int); VND(space, schar); VND(g_fnum, int);
    VASSUME(space >= 0 && space < SegCount && g_fnum >= 0 && g_fnum < 256);
    DebugMode = DebugMAP; VND(CodeLen, int); VASSUME(CodeLen >= 0 && CodeLen <= 65535); VND(DontPrint, uchar);
    WAsmCode = malloc(8); VASSUME(WAsmCode != NULL);
    g_range_calls = 0; fn[0] = 'f'; fn[1] = 0;
    AddLineInfo(False, line, fn, space, adr, len);
    for (r = LineInfoRoot; r && cnt < 4; r = r->Next, cnt++) {
        if (r == a) olda = 1;
        else if (r == b) oldb = 1;
        else if (r->Contents.Space == space && r->Contents.FileName == g_fnum && r->Contents.LineNum == line && r->Contents.Address == adr) found++;
    }
    VPOST(r == NULL && cnt == depth + 1, "C19: a line adds exactly one debug record");
    VPOST(found == 1, "C19: the record names the line's segment, file, line number and start address");
    VPOST((!a || olda) && (!b || oldb), "C19: earlier debug records are kept");
    VPOST(space != SegCode || (g_range_calls == 1 && g_range_adr == adr && g_range_len == len), "C19: code-segment lines extend the file's address ranges by exactly their range");
    VREACH("end");
}
