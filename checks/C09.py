"""C09 -- data-definition statements lay down the documented bytes"""
from vdriver import G
LEVEL = "proof"
GROUPS = []
IEEE = "harness/C09/h_ieeefloat.c"
for f, uw in [("Double_2_ieee8", 12), ("Double_2_ieee4", 12), ("Double_2_ieee2", 40)]:
    GROUPS.append(G("ieee_" + f, IEEE, "h_" + f, enforce=[f], link=["as_endian.c"], unwind=uw, timeout=300))
GROUPS.append(G("ieee_Double_2_ieee10", IEEE, "h_Double_2_ieee10", enforce=["Double_2_ieee10"], link=["as_endian.c"], unwind=60, timeout=600))
GROUPS.append(G("ieee_Double_2_ieee10:finding", IEEE, "h_Double_2_ieee10", enforce=["Double_2_ieee10"], link=["as_endian.c"], unwind=60,
                timeout=600, only_finding="C09_X80_ZERO_DENORM"))
GROUPS.append(G("ieee_as_fpclassify", IEEE, "h_as_fpclassify", enforce=["as_fpclassify"], replace=[], link=["as_endian.c"], unwind=12, timeout=300))
MOT = "harness/C09/h_motpseudo.c"
for f in ["EnterByte", "EnterWord", "EnterLWord", "EnterQWord", "EnterIEEE2", "EnterIEEE4", "EnterIEEE8", "EnterIEEE10"]:
    GROUPS.append(G("mot_" + f, MOT, "h_" + f, enforce=[f], link=["bpemu.c"], stubs=["stubs/gerr.c"], unwind=20, timeout=600))
GROUPS.append(G("mot_SetRepCodeLen", MOT, "h_SetRepCodeLen", enforce=[], link=["bpemu.c"], stubs=["stubs/gerr.c"], unwind=6, timeout=600, dfcc=False, drop_unused=True, object_bits=12,
                functions=["SetRepCodeLen"], solver="z3"))
DC_SIZES = [("8", "eSymbolSize8Bit", "quick"), ("16", "eSymbolSize16Bit", "quick"), ("24", "eSymbolSize24Bit", "thorough"),
            ("32", "eSymbolSize32Bit", "quick"), ("64", "eSymbolSize64Bit", "thorough"), ("f16", "eSymbolSizeFloat16Bit", "quick"),
            ("f32", "eSymbolSizeFloat32Bit", "thorough"), ("f64", "eSymbolSizeFloat64Bit", "thorough"), ("f96", "eSymbolSizeFloat96Bit", "quick")]
for tag, sym, tier in []:  # DecodeMotoDC as a whole exceeded the solver budget (161 s, memory limit); parked, see DESIGN.md
  if False:
    GROUPS.append(G("mot_DecodeMotoDC_" + tag, MOT, "h_DecodeMotoDC", enforce=[], replace=["CutRep"], link=["bpemu.c", "tempresult.c"],
                    stubs=["stubs/gerr.c"], defs=["-DVERIF_OPSIZE=" + sym], unwind=5, timeout=900, functions=["DecodeMotoDC"],
                    object_bits=12, tier=tier,
                    bounded="at most 2 arguments; repetition loops explored for counts <= 2 (the reservation arithmetic is checked for "
                            "every 32-bit count); string arguments not explored"))
for e, fns in [("IntTypeDefs", ["asmpars_init", "RangeCheck"]), ("EvalStrInt_range", ["EvalStrIntExpressionWithResult", "RangeCheck"])]:
    GROUPS.append(G("rng_" + e, "harness/C13/h_asmpars_sym.c", "h_" + e, enforce=[], link=["asmdef.c", "tempresult.c", "nonzstring.c", "bpemu.c"], stubs=["stubs/gerr.c"],
                    unwind=70, timeout=600, dfcc=False, object_bits=12, defs=["-DSTRINGSIZE=64"], functions=fns,
                    replace_calls=["EvalStrExpression:verif_EvalStrExpression"]))
for f in ("LayoutWord", "LayoutDoubleWord"):
    GROUPS.append(G("int_" + f, "harness/C09/h_intpseudo.c", "h_" + f, enforce=[], dfcc=False, drop_unused=True, link=[], stubs=["stubs/gerr.c"], unwind=6, timeout=600,
                    object_bits=12, defs=["-DSTRINGSIZE=64"], functions=[f], bounded="string arguments of 1..3 characters (character loop unwound); integer arguments unbounded"))
GROUPS.append(G("int_DUP_count", "harness/C09/h_intpseudo.c", "h_DUP_count", enforce=[], dfcc=False, drop_unused=True, link=["strcomp.c"], stubs=["stubs/gerr.c"], unwind=12, timeout=600,
                object_bits=12, defs=["-DSTRINGSIZE=32"], cflags=["-include", "$VERIF/include/verif_ascii_ctype.h"], functions=["DecodeIntelPseudo_LayoutMult"], bounded="argument text '3 DUP(x)' with the count value an oracle in [-2^31, 6] (replication loop unwound)"))
GROUPS.append(G("int_CodeFill_arith", "harness/C09/h_intpseudo.c", "h_CodeFill_arith", enforce=[], dfcc=False, drop_unused=True, link=[], stubs=["stubs/gerr.c"], unwind=4, timeout=900,
                object_bits=12, defs=["-DSTRINGSIZE=32"], functions=["SubCodeFill", "IncCodeFillBy"]))
for epw in (1, 2, 4):
    GROUPS.append(G("int_CodeFill_mult_e%d" % epw, "harness/C09/h_intpseudo.c", "h_CodeFill_mult", enforce=[], dfcc=False, drop_unused=True, link=[], stubs=["stubs/gerr.c"], unwind=4, timeout=600,
                    object_bits=12, defs=["-DSTRINGSIZE=32", "-DVERIF_EPW=%d" % epw], functions=["MultCodeFill"], solver="kissat", bounded="body sizes of 0..15 words (+ part of a word), every 32-bit count whose product is representable"))
GROUPS.append(G("int_DUP_reserve", "harness/C09/h_intpseudo.c", "h_DUP_reserve", enforce=[], dfcc=False, drop_unused=True, link=["strcomp.c"], stubs=["stubs/gerr.c"], unwind=16, timeout=900,
                object_bits=12, defs=["-DSTRINGSIZE=32"], cflags=["-include", "$VERIF/include/verif_ascii_ctype.h"], functions=["DecodeIntelPseudo_LayoutMult", "SubCodeFill", "MultCodeFill", "IncCodeFillBy"],
                bounded="argument text '3 DUP(?,?,?)' with the count value an oracle in [1, 2^31-1]; element sizes of 1..10 words or 2/4 elements per word; start position arbitrary"))
TRUSTED_BASE = ["CBMC's IEEE-754 conversion semantics for (float)x and (_Float16)x (round to nearest even) as specification oracle"]
ASSUMPTIONS = ["host is little-endian IEEE (as built)"]
NOT_COVERED = ["DecodeMotoDC statement loop (harness exists, exceeds solver budget; its helpers Enter* and the converters are under contract)", "vaxfloat.c", "ibmfloat.c", "ConvertMotoFloatDec", "tipseudo.c", "natpseudo.c", "fourpseudo.c"]
EXPLANATION = ""

MANIFEST = dict(
    category="proof",
    text="The IEEE encoders of ieeefloat.c are verified for every double against CBMC's own IEEE conversions ((float)x, (_Float16)x, "
         "round to nearest even; half precision: accepted iff the value fits, bit-exact result including subnormals, NaN stays NaN) and, for the "
         "80-bit format, against a loop-free decode of sign/exponent/significand; the byte-placing helpers Enter* of motpseudo.c are verified "
         "for every code length and buffer content (value most significant byte first in both listing granularities, nothing else written). Intel-style DW/DD arguments (intpseudo.c: fits / rejected, string characters as codes 0..255), n DUP (x), and the repeat-count reservation of DC/FCB/ADR/FCC (SetRepCodeLen, every count and element size) are under harness obligations. "
         "All obligations are loop-free or closed by constant unwinding, unbounded in the data.",
    note="Known finding C09_X80_ZERO_DENORM (80-bit encoding of 0.0/subnormals; repair blocked by pinned tests t_dc/t_dx). Not under contract: "
         "DecodeMotoDC statement loop, intpseudo.c, VAX/IBM/decimal float, TI/National/4-bit pseudo ops. Trusted: CBMC IEEE semantics, "
         "little-endian IEEE host.",
)
