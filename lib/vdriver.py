#!/usr/bin/env python3
"""Driver for the contract-based checks of /verif.

One *group* = one harness entry point compiled together with the real /repo
translation unit(s), instrumented with goto-instrument --dfcc (function contracts
enforced / replaced, loop contracts applied) and decided by cbmc.  One *obligation* =
one cbmc property of one group.

Exit codes of a check: 0 held, 1 violation (VIOLATION line printed), 2 undecided /
broken (never a VIOLATION line).
"""
import concurrent.futures as cf
import hashlib
import importlib.util
import json
import os
import re
import resource
import shutil
import subprocess
import sys
import tempfile
import time

VERIF = os.path.dirname(os.path.dirname(os.path.abspath(__file__)))
REPO = os.environ.get("VERIF_REPO", "/repo")
GUARD = "ASL_VERIF"
# runs against a scratch copy of the repository (seed evaluation) keep their evidence / replay files apart
OUT = os.environ.get("VERIF_OUT", VERIF)

REPO_ST_OBJECTS = ["stringlists.c", "strutil.c", "nonzstring.c", "dynstr.c",
                   "stdhandl.c", "strcomp.c", "as_endian.c", "bpemu.c"]
RES_STEMS = ["ioerrs", "cmdarg", "tools", "as", "das", "plist", "alink", "pbind",
             "p2hex", "p2bin"]

CONFIG_H = """#ifndef CONFIG_H
#define CONFIG_H
#define LOCALE_NLS
#define HAVE_UNISTD_H
#define HAVE_ENDIAN_H
#define HAVE_SYS_PARAM_H
#define ARCHPRNAME "x86_64"
#define ARCHSYSNAME "Linux"
#endif
"""

DEFAULT_CBMC_FLAGS = [
    "--no-standard-checks", "--bounds-check", "--pointer-check",
    "--div-by-zero-check", "--pointer-primitive-check",
    "--no-malloc-may-fail",
]

# built-in checks whose failure is *not* a property violation by the statements of
# the properties (two's-complement wrap of + - * and unary minus is the documented
# arithmetic; see DESIGN.md 3/C03).  They are counted as "ignored", not discharged.
IGNORED_DESCR = re.compile(
    r"arithmetic overflow on signed (\+|-|\*|unary minus|shl|type conversion)|"
    r"arithmetic overflow on signed to|arithmetic overflow on float")


def log(*a):
    print(*a, file=sys.stderr, flush=True)


class Undecided(Exception):
    pass


def run(cmd, cwd=None, timeout=None, mem_gb=None, stdin=None):
    def lim():
        if mem_gb:
            b = int(mem_gb * (1 << 30))
            resource.setrlimit(resource.RLIMIT_AS, (b, b))
        os.setsid()
    t0 = time.time()
    p = subprocess.Popen(cmd, cwd=cwd, stdout=subprocess.PIPE, stderr=subprocess.PIPE,
                         preexec_fn=lim, stdin=subprocess.DEVNULL)
    try:
        out, err = p.communicate(timeout=timeout)
        to = False
    except subprocess.TimeoutExpired:
        try:
            os.killpg(p.pid, 9)
        except ProcessLookupError:
            pass
        out, err = p.communicate()
        to = True
    return dict(rc=p.returncode, out=out.decode("utf-8", "replace"),
                err=err.decode("utf-8", "replace"), timeout=to, wall=time.time() - t0)


# --------------------------------------------------------------------------------
# per-run preparation: generated headers rebuilt from the current /repo tree
# --------------------------------------------------------------------------------
def prepare(scratch):
    gen = os.path.join(scratch, "gen")
    os.makedirs(gen, exist_ok=True)
    with open(os.path.join(gen, "config.h"), "w") as f:
        f.write(CONFIG_H)
    # verif_hooks.h may not exist on a tree where the hook commits were reverted
    rc = run(["gcc", "-O0", "-w", "-I" + REPO, "-I" + gen, "-o", os.path.join(gen, "rescomp"),
              os.path.join(REPO, "rescomp.c")] + [os.path.join(REPO, f) for f in REPO_ST_OBJECTS],
             timeout=300)
    if rc["rc"] != 0:
        raise Undecided("cannot build rescomp from /repo: " + rc["err"][-2000:])
    for stem in RES_STEMS:
        r = run([os.path.join(gen, "rescomp"), stem + ".res", "-h", os.path.join(gen, stem + ".rsc")],
                cwd=REPO, timeout=120)
        if r["rc"] != 0:
            raise Undecided("rescomp failed on %s.res: %s" % (stem, r["err"][-2000:]))
    return gen


# --------------------------------------------------------------------------------
# group definition
# --------------------------------------------------------------------------------
class Group(dict):
    """keys: name, src, entry, enforce, replace, link, defs, loops (bool), unwind,
    unwindset, flags, tier ('quick'|'thorough'), bounded (None|str), timeout, mem,
    functions (list of real functions under contract), reach (list of tags that must
    be reachable; default ['end']), finding (id of known finding this group witnesses),
    replay (None|'native'|callable), solver (None|'cvc5'|'z3'|'kissat'),
    noreach (bool), expect_fail (list of regex of obligations that are *expected* to
    fail: used only by spec self tests)."""

    def __getattr__(self, k):
        try:
            return self[k]
        except KeyError:
            raise AttributeError(k)


def G(name, src, entry, enforce=None, replace=None, link=None, defs=None, loops=False,
      unwind=None, unwindset=None, flags=None, tier="quick", bounded=None, timeout=300,
      mem=12, functions=None, finding=None, replay="native", solver=None, noreach=False,
      stubs=None, object_bits=None, note=None, selftest=None, only_finding=None,
      enforce_none=False, genbody=None, cflags=None, dfcc=True, replace_calls=None, split=None, drop_unused=False, pre_unwind=None):
    enforce = enforce or []
    if isinstance(enforce, str):
        enforce = [enforce]
    return Group(name=name, src=src, entry=entry, enforce=enforce, replace=replace or [],
                 link=link or [], defs=defs or [], loops=loops, unwind=unwind,
                 unwindset=unwindset or [], flags=flags or [], tier=tier, bounded=bounded,
                 timeout=timeout, mem=mem, functions=functions or list(enforce),
                 finding=finding, replay=replay, solver=solver, noreach=noreach,
                 stubs=stubs or [], object_bits=object_bits, note=note,
                 selftest=selftest, only_finding=only_finding, enforce_none=enforce_none,
                 genbody=genbody, cflags=cflags or [], dfcc=dfcc, replace_calls=replace_calls or [], split=split, drop_unused=drop_unused, pre_unwind=pre_unwind or [])


def load_checks(pid):
    path = os.path.join(VERIF, "checks", pid + ".py")
    if not os.path.exists(path):
        raise SystemExit("no check definition for " + pid)
    spec = importlib.util.spec_from_file_location("checks_" + pid, path)
    mod = importlib.util.module_from_spec(spec)
    sys.path.insert(0, os.path.join(VERIF, "lib"))
    spec.loader.exec_module(mod)
    return mod


# --------------------------------------------------------------------------------
# build + verify one group
# --------------------------------------------------------------------------------
def cc_args(gen, extra_defs):
    return (["-I" + os.path.join(VERIF, "include"), "-I" + VERIF, "-I" + REPO, "-I" + gen,
             "-D" + GUARD, "-DVERIF_CBMC", '-DLIBDIR="/usr/local/lib/asl"', "-DVERIF_REPO=\"%s\"" % REPO]
            + list(extra_defs))


def build_group(g, gen, wd, extra_defs=()):
    """returns path of instrumented goto binary; raises Undecided"""
    os.makedirs(wd, exist_ok=True)
    a = os.path.join(wd, "a.gb")
    b = os.path.join(wd, "b.gb")
    cflags = [x.replace("$VERIF", VERIF) for x in g.get("cflags", [])]
    base = cc_args(gen, list(g.defs) + list(extra_defs))
    objs = []
    # harness (+ stub files): loop-contract anchors active (-DASL_VERIF)
    units = [(os.path.join(VERIF, g.src), True)] + [(os.path.join(VERIF, f), True) for f in g.stubs] + \
            [(os.path.join(REPO, f), False) for f in g.link]
    for k, (src, guard) in enumerate(units):
        o = os.path.join(wd, "u%d.o" % k)
        args = [x for x in base if guard or x != "-D" + GUARD]
        r = run(["goto-cc", "-c", "-o", o] + args + cflags + [src], timeout=600, mem_gb=8)
        if r["rc"] != 0:
            txt = r["err"] + r["out"]
            errs = [l for l in txt.splitlines() if "error" in l.lower()]
            raise Undecided("goto-cc failed for %s (%s): %s" % (g.name, os.path.basename(src), " | ".join(errs[:4]) or txt[-1500:]))
        objs.append(o)
    r = run(["goto-cc", "--function", g.entry, "-o", a] + objs, timeout=600, mem_gb=8)
    if r["rc"] != 0:
        txt = r["err"] + r["out"]
        errs = [l for l in txt.splitlines() if "error" in l.lower()]
        raise Undecided("goto-cc link failed for %s: %s" % (g.name, " | ".join(errs[:4]) or txt[-1500:]))
    if g.get("replace_calls"):
        # calls to a function that is out of reach (e.g. the formula parser) are redirected to an
        # oracle defined in the harness: goto-instrument --replace-calls f:g
        a3 = os.path.join(wd, "a_rc.gb")
        cmdrc = ["goto-instrument"]
        for fg in g.replace_calls:
            cmdrc += ["--replace-calls", fg]
        r = run(cmdrc + [a, a3], timeout=600, mem_gb=12)
        if r["rc"] != 0:
            raise Undecided("goto-instrument --replace-calls failed for %s: %s" % (g.name, (r["err"] + r["out"])[-800:]))
        a = a3
    if g.genbody:
        # havoc-with-frame bodies for callees that live in other translation units:
        # genbody = (regex of function names, options), e.g. "havoc,globals:(ErrorCount|Repass)"
        passes = g.genbody if isinstance(g.genbody, list) else [g.genbody]
        for k, (rx, opts) in enumerate(passes):
            a2 = os.path.join(wd, "a_gen%d.gb" % k)
            r = run(["goto-instrument", "--generate-function-body", rx, "--generate-function-body-options", opts, a, a2],
                    timeout=600, mem_gb=12)
            if r["rc"] != 0:
                raise Undecided("goto-instrument --generate-function-body failed for %s: %s" % (g.name, (r["err"] + r["out"])[-1500:]))
            a = a2
    if g.get("drop_unused"):
        # functions not reachable from the harness entry (e.g. the tool's main with everything it calls) are removed
        # before the loop-contract pass, which otherwise inlines and analyses all of them (minutes on p2bin.c)
        a4 = os.path.join(wd, "a_du.gb")
        r = run(["goto-instrument", "--drop-unused-functions", a, a4], timeout=600, mem_gb=12)
        if r["rc"] != 0:
            raise Undecided("goto-instrument --drop-unused-functions failed for %s: %s" % (g.name, (r["err"] + r["out"])[-800:]))
        a = a4
    if g.get("pre_unwind"):
        # constant-trip inner loops of a loop under contract are unwound (with unwinding assertions) before the
        # loop-contract pass, which refuses an inner loop without a contract: entries "<function>.<loop>:<N>"
        a5 = os.path.join(wd, "a_pu.gb")
        r = run(["goto-instrument", "--unwindset", ",".join(g.pre_unwind), "--unwinding-assertions", a, a5], timeout=600, mem_gb=12)
        if r["rc"] != 0:
            raise Undecided("goto-instrument --unwindset failed for %s: %s" % (g.name, (r["err"] + r["out"])[-800:]))
        a = a5
    if g.get("dfcc", True):
        cmd = ["goto-instrument", "--no-malloc-may-fail", "--dfcc", g.entry]
    else:
        # legacy (non-DFCC) contract instrumentation: no write-set library, far smaller formulas;
        # used where DFCC's per-assignment checks made an obligation intractable
        a1 = os.path.join(wd, "a_lib.gb")
        r = run(["goto-instrument", "--no-malloc-may-fail", "--add-library", a, a1], timeout=600, mem_gb=12)
        if r["rc"] != 0:
            raise Undecided("goto-instrument --add-library failed for %s: %s" % (g.name, (r["err"] + r["out"])[-800:]))
        a = a1
        cmd = ["goto-instrument", "--no-malloc-may-fail"]
    for f in g.enforce:
        cmd += ["--enforce-contract", f]
    for f in g.replace:
        cmd += ["--replace-call-with-contract", f]
    if g.loops:
        cmd += ["--apply-loop-contracts"]
    cmd += [a, b]
    r = run(cmd, timeout=900, mem_gb=12)
    if os.environ.get("VERIF_DEBUG"):
        log("  %s: %s  %.0fs" % (g.name, " ".join(cmd[:6]), r["wall"]))
    if r["rc"] != 0:
        raise Undecided("goto-instrument failed for %s (rc %s):\n%s" %
                        (g.name, r["rc"], (r["err"] + r["out"])[-3000:]))
    g["_instr_log"] = r["out"] + r["err"]
    return b


def resolve_unwindset(g, binary):
    """unwindset entries "@<container>:<source function>:<first|last|k>:<N>" name a loop by the function it was
    written in (loop-contract instrumentation inlines callees, which renumbers the loops of the container):
    among the loops of goto function <container> whose source lies in <source function>, ordered by line,
    the first / last / k-th one gets bound N.  Resolved once per binary with cbmc --show-loops."""
    if "_uws" in g and g.get("_uws_bin") == binary:
        return g["_uws"]
    out = []
    loops = None
    for e in g.unwindset:
        if not e.startswith("@"):
            out.append(e)
            continue
        cont, srcfn, which, n = e[1:].split(":")
        if loops is None:
            r = run(["cbmc", "--show-loops", "--json-ui", binary], timeout=300, mem_gb=8)
            loops = []
            try:
                for it in json.loads(r["out"]):
                    loops += it.get("loops", []) if isinstance(it, dict) else []
            except Exception:
                loops = []
        cand = [l for l in loops if l["name"].rsplit(".", 1)[0] == cont and (l.get("sourceLocation") or {}).get("function") == srcfn]
        cand.sort(key=lambda l: (int(l["sourceLocation"].get("line", 0)), int(l["name"].rsplit(".", 1)[1])))
        if not cand:
            continue  # loop gone: the global --unwind applies, a failing unwinding assertion reports undecided
        pick = cand[0] if which == "first" else cand[-1] if which == "last" else cand[min(int(which), len(cand) - 1)]
        out.append("%s:%s" % (pick["name"], n))
    g["_uws"] = out
    g["_uws_bin"] = binary
    return out


def cbmc_cmd(g, binary, trace=False, prop=None):
    cmd = ["cbmc", "--json-ui"] + DEFAULT_CBMC_FLAGS + list(g.flags)
    if g.unwind is not None:
        cmd += ["--unwind", str(g.unwind)]
    if g.unwindset:
        cmd += ["--unwindset", ",".join(resolve_unwindset(g, binary))]
    if g.unwind is not None or g.unwindset:
        cmd += ["--unwinding-assertions"]
    if g.object_bits:
        cmd += ["--object-bits", str(g.object_bits)]
    if g.solver == "cvc5":
        cmd += ["--cvc5"]
    elif g.solver == "z3":
        cmd += ["--z3"]
    elif g.solver == "kissat":
        cmd += ["--external-sat-solver", "kissat"]
    if trace:
        cmd += ["--trace"]
    if prop:
        cmd += ["--property", prop]
    cmd += [binary]
    return cmd


def parse_cbmc(out):
    try:
        js = json.loads(out)
    except Exception:
        # truncated output (timeout / oom): try to salvage
        return None, None, []
    results, status, msgs = None, None, []
    for item in js:
        if "result" in item:
            results = item["result"]
        if "cProverStatus" in item:
            status = item["cProverStatus"]
        if "messageText" in item:
            msgs.append(item["messageText"])
    return results, status, msgs


def in_repo(loc):
    f = (loc or {}).get("file", "") or ""
    wd = (loc or {}).get("workingDirectory", "")
    full = f if os.path.isabs(f) else os.path.normpath(os.path.join(wd, f))
    return full.startswith(REPO + "/"), full


def classify(pname, descr, loc):
    """returns one of: reach, contract, safety, ignored, internal"""
    if descr.startswith("REACH:"):
        return "reach"
    if descr.startswith("P:") or re.match(r"^P?C\d\d[: ]", descr):
        return "contract"
    if re.search(r"\.(postcondition|precondition)\.", pname) or \
       re.search(r"Check (ensures|requires) clause", descr):
        return "contract"
    if re.search(r"\.assigns\.|loop_assigns|\.frees\.", pname) or "is assignable" in descr or "is freeable" in descr:
        return "contract"
    if re.search(r"loop_invariant_(base|step)|loop_decreases|loop_step_unwinding", pname) or \
       re.search(r"loop invariant|decreases clause|loop variant", descr, re.I):
        return "contract"
    if "unwinding assertion" in descr or pname.endswith(".unwind") or ".unwind." in pname:
        return "internal"
    if "no_body" in pname or "undefined function should be unreachable" in descr \
       or "no body" in descr:
        return "internal"
    if "recursion" in pname:
        return "internal"
    if IGNORED_DESCR.search(descr):
        return "ignored"
    isr, _ = in_repo(loc)
    if isr:
        return "safety"
    # built-in checks located in harness / stubs / cprover library
    return "internal-safety"


def verify_group(g, gen, scratch, extra_defs=(), tag=""):
    """returns dict(status, obligations=[...], wall, solver_s, ...)"""
    wd = os.path.join(scratch, "g_" + re.sub(r"[^A-Za-z0-9_.-]", "_", g.name + tag))
    t0 = time.time()
    res = dict(group=g.name, tag=tag, obligations=[], status="ok", detail="", wall=0.0,
               bounded=g.bounded, functions=g.functions, entry=g.entry, defs=list(g.defs) + list(extra_defs))
    try:
        binary = build_group(g, gen, wd, extra_defs)
    except Undecided as e:
        res.update(status="undecided", detail=str(e), wall=time.time() - t0)
        return res
    if os.environ.get("VERIF_DEBUG"):
        log("  %s: build %.0fs" % (g.name, time.time() - t0))
    cmd = cbmc_cmd(g, binary)
    res["cbmc_cmd"] = " ".join(cmd)
    if g.get("split"):
        # the obligations of one group decided by several cbmc processes, each on a share of the property list
        # (measured on p2bin/pbind ProcessFile: every obligation alone needs seconds, all of them in one incremental
        # SAT session more than ten minutes).  Unwinding assertions are part of every share.
        r, results, status, msgs = run_split(g, binary, cmd)
        res["cbmc_cmd"] += "   [split into %d shares by --property]" % g.split
    else:
        r = run(cmd, timeout=g.timeout, mem_gb=g.mem)
        results, status, msgs = (None, None, []) if r["timeout"] else parse_cbmc(r["out"])
    res["wall"] = time.time() - t0
    if os.environ.get("VERIF_DEBUG"):
        log("  %s: build+cbmc %.0fs" % (g.name, time.time() - t0))
    if r["timeout"]:
        res.update(status="undecided", detail="cbmc timeout after %ss" % g.timeout)
        return res
    res["messages_tail"] = msgs[-8:]
    m = [x for x in msgs if "Runtime decision procedure" in x or "Runtime Solver" in x]
    res["solver_s"] = sum(float(re.search(r"([0-9.]+)s", x).group(1)) for x in m if re.search(r"([0-9.]+)s", x))
    if any("ignoring forall" in x or "ignoring exists" in x for x in msgs):
        res.update(status="undecided", detail="quantifier ignored by back end")
        return res
    nobody = sorted({m.group(1) for x in msgs for m in [re.search(r"no body for function '?([A-Za-z_0-9]+)", x)] if m})
    nobody = [f for f in nobody if not f.startswith("nondet_") and not f.startswith("__")]
    if nobody and not g.get("dfcc", True):
        # without DFCC an undefined callee silently becomes "returns anything, changes nothing"
        res.update(status="undecided", detail="reachable functions without body (non-DFCC mode): " + ", ".join(nobody[:12]))
        return res
    if results is None:
        res.update(status="undecided",
                   detail="cbmc gave no result (rc=%s): %s" % (r["rc"], (r["err"][-1500:] + " | ".join(msgs[-6:]))))
        return res
    loop_instr = len(re.findall(r"loop_invariant_(?:base|step)", json.dumps([x.get("property") for x in results]))) + \
                 len([x for x in results if re.search(r"loop invariant", x.get("description", ""), re.I)])
    for p in results:
        pname = p.get("property", "")
        descr = p.get("description", "")
        loc = p.get("sourceLocation", {})
        kind = classify(pname, descr, loc)
        res["obligations"].append(dict(name=pname, descr=descr, status=p.get("status"), kind=kind,
                                       file=loc.get("file"), line=loc.get("line"),
                                       function=loc.get("function")))
    if g.loops and loop_instr == 0:
        res.update(status="undecided", detail="loop contracts requested but no loop_invariant obligations were generated (anchor missing?)")
    res["_binary"] = binary
    res["_wd"] = wd
    return res


import threading
SPLIT_SLOTS = threading.BoundedSemaphore(max(4, (os.cpu_count() or 8)))


def run_split(g, binary, cmd):
    lst = run([c for c in cmd if c != "--trace"] + ["--show-properties"], timeout=600, mem_gb=g.mem)
    names = []
    try:
        for item in json.loads(lst["out"]):
            for p in item.get("properties", []) if isinstance(item, dict) else []:
                names.append(p["name"])
    except Exception:
        pass
    if not names:
        return dict(rc=lst["rc"], out=lst["out"], err="no property list: " + lst["err"][-500:], timeout=False), None, None, []
    if g.split == "core":
        # every obligation located in a function under contract / the harness entry is decided by its own cbmc
        # process (alone each needs seconds; together in one incremental SAT session minutes), the rest share one
        corefn = set(g.functions) | {g.entry}
        core = [nm for nm in names if nm.split(".")[0] in corefn and not re.search(r"\.(pointer_dereference|pointer_primitives|array_bounds)\.", nm)]
        rest = [nm for nm in names if nm not in set(core)]
        shares = [[nm] for nm in core] + ([rest] if rest else [])
        n = 16
    else:
        n = max(1, int(g.split))
        shares = [names[i::n] for i in range(n)]
    def one(share):
        c = cmd[:-1]
        for nm in share:
            c += ["--property", nm]
        with SPLIT_SLOTS:
            rr = run(c + [cmd[-1]], timeout=g.timeout, mem_gb=g.mem)
        if os.environ.get("VERIF_DEBUG"):
            log("  share of %d properties: %.0fs; first: %s" % (len(share), rr["wall"], " ".join(share[:3])))
            if rr["wall"] > 60:
                log("   core members: " + " ".join(x for x in share if x.split(".")[0] in (set(g.functions) | {g.entry}))[:3000])
        return rr
    with cf.ThreadPoolExecutor(max_workers=n) as ex:
        outs = list(ex.map(one, shares))
    merged, msgs, seen = [], [], {}
    rr = dict(rc=max(o["rc"] for o in outs), out="", err="".join(o["err"][-500:] for o in outs), timeout=any(o["timeout"] for o in outs))
    if rr["timeout"]:
        return rr, None, None, []
    for o in outs:
        results, status, m = parse_cbmc(o["out"])
        if results is None:
            return dict(rc=o["rc"], out=o["out"], err=o["err"], timeout=False), None, None, m
        msgs += m
        for p in results:
            k = p.get("property")
            if k in seen:
                # unwinding assertions appear in every share: keep the worst outcome
                if p.get("status") != "SUCCESS":
                    merged[seen[k]] = p
                continue
            seen[k] = len(merged)
            merged.append(p)
    return rr, merged, "merged", msgs


def get_trace(g, binary, prop):
    r = run(cbmc_cmd(g, binary, trace=True, prop=prop), timeout=g.timeout * 2, mem_gb=g.mem)
    try:
        js = json.loads(r["out"])
    except Exception:
        return None
    for item in js:
        if "result" in item:
            for p in item["result"]:
                if p.get("property") == prop and "trace" in p:
                    return p["trace"]
    return None


# --------------------------------------------------------------------------------
# native replay of a counterexample on the real code
# --------------------------------------------------------------------------------
def trace_inputs(trace):
    """extract (file, line, lhs, binary/value) of every assignment located in /verif
    sources (harness + stubs); these are the nondeterministic choices"""
    vals = []
    for st in trace or []:
        if st.get("stepType") != "assignment":
            continue
        loc = st.get("sourceLocation") or {}
        f = loc.get("file", "")
        if not f:
            continue
        full = f if os.path.isabs(f) else os.path.normpath(os.path.join(loc.get("workingDirectory", ""), f))
        if not full.startswith(VERIF + "/"):
            continue
        v = st.get("value", {})
        vals.append(dict(file=os.path.basename(full), line=int(loc.get("line", 0)), lhs=st.get("lhs", ""),
                         binary=v.get("binary"), data=v.get("data"), type=v.get("type"),
                         name=v.get("name")))
    return vals


def flatten_value(v, prefix, out):
    """flatten struct/array json values of a trace into scalar entries"""
    if v is None:
        return
    n = v.get("name")
    if n == "struct":
        for m in v.get("members", []):
            flatten_value(m.get("value"), prefix + "." + m.get("name", "?"), out)
    elif n == "array":
        for e in v.get("elements", []):
            flatten_value(e.get("value"), "%s[%s]" % (prefix, e.get("index")), out)
    elif n == "union":
        m = v.get("member")
        if m:
            flatten_value(m.get("value"), prefix + "." + m.get("name", "?"), out)
    else:
        out.append((prefix, v.get("binary"), v.get("data")))


def norm_lhs(s):
    s = re.sub(r"\s+", "", s or "")
    s = re.sub(r"(\d+)[uUlL]+\b", r"\1", s)
    s = s.replace("->", ".")
    return s


def write_replay_inputs(trace, path):
    lines = []
    for st in trace or []:
        if st.get("stepType") != "assignment":
            continue
        loc = st.get("sourceLocation") or {}
        f = loc.get("file", "")
        if not f:
            continue
        full = f if os.path.isabs(f) else os.path.normpath(os.path.join(loc.get("workingDirectory", ""), f))
        if not full.startswith(VERIF + "/"):
            continue
        flat = []
        flatten_value(st.get("value"), norm_lhs(st.get("lhs", "")), flat)
        for lhs, binary, data in flat:
            if binary is None:
                continue
            lines.append("%s:%s:%s=%s" % (os.path.basename(full), loc.get("line", 0), lhs, binary))
    with open(path, "w") as f:
        f.write("\n".join(lines) + "\n")
    return len(lines)


def native_replay(g, gen, scratch, trace, extra_defs=()):
    """compile the same harness natively against the same /repo sources and run it on
    the counterexample's input values.  Returns (reproduced: bool|None, text)"""
    wd = tempfile.mkdtemp(prefix="replay_", dir=scratch)
    inp = os.path.join(wd, "inputs.txt")
    n = write_replay_inputs(trace, inp)
    exe = os.path.join(wd, "replay")
    cflags = [x.replace("$VERIF", VERIF) for x in g.get("cflags", [])]
    common = ["gcc", "-O0", "-g", "-w", "-fsanitize=address,undefined", "-fno-sanitize-recover=undefined",
              "-fno-sanitize=shift,signed-integer-overflow,float-cast-overflow",
              "-DVERIF_NATIVE", "-DVERIF_ENTRY=" + g.entry,
              "-I" + os.path.join(VERIF, "include"), "-I" + VERIF, "-I" + REPO, "-I" + gen,
              '-DLIBDIR="/usr/local/lib/asl"', "-DVERIF_REPO=\"%s\"" % REPO] + list(g.defs) + list(extra_defs) + cflags
    units = [(os.path.join(VERIF, g.src), True)] + [(os.path.join(VERIF, f), True) for f in g.stubs] + \
            [(os.path.join(VERIF, "replay", "vnd_runtime.c"), True)] + [(os.path.join(REPO, f), False) for f in g.link]
    objs = []
    for k, (src, guard) in enumerate(units):
        o = os.path.join(wd, "n%d.o" % k)
        r = run(common + (["-D" + GUARD] if guard else []) + ["-c", "-o", o, src], timeout=300)
        if r["rc"] != 0:
            return None, "native build of the harness failed (%s):\n%s" % (os.path.basename(src), r["err"][-2500:])
        objs.append(o)
    cmd = ["gcc", "-fsanitize=address,undefined", "-o", exe] + objs + ["-lm"]
    r = run(cmd, timeout=300)
    for _ in range(4):
        if r["rc"] == 0:
            break
        # functions that are referenced only from code the harness never reaches are
        # given aborting bodies so that the real translation units link
        und = sorted(set(re.findall(r"undefined reference to `([A-Za-z_0-9]+)'", r["err"])))
        if not und:
            break
        with open(os.path.join(wd, "undef_stubs.c"), "a") as f:
            for u in und:
                f.write("void %s(void){ __builtin_trap(); }\n" % u)
        if os.path.join(wd, "undef_stubs.c") not in cmd:
            cmd.insert(-1, os.path.join(wd, "undef_stubs.c"))
        r = run(cmd, timeout=300)
    if r["rc"] != 0:
        return None, "native build of the harness failed:\n" + r["err"][-3000:]
    r = run([exe, inp], timeout=60)
    text = "native replay: %d input values, exit %s%s\n%s%s" % (
        n, r["rc"], " (timeout)" if r["timeout"] else "", r["out"][-3000:], r["err"][-4000:])
    if r["timeout"]:
        return True, text + "\nnative run did not terminate within 60 s"
    if r["rc"] == 77:
        return None, text  # an assumption of the harness was not met natively -> input mismatch
    if r["rc"] == 1 and "REPLAY-FAIL" in r["err"]:
        return True, text
    if r["rc"] < 0 or "AddressSanitizer" in r["err"] or "runtime error:" in r["err"]:
        # a sanitizer report / signal counts as a reproduction only if it happened in repository code
        # (a crash inside the harness itself, e.g. on a value the replay could not feed, is not one)
        frames = re.findall(r"#\d+ 0x[0-9a-f]+ in \S+ (\S+?):\d+", r["err"])[:6]
        in_repo_code = any(f.startswith(REPO + "/") for f in frames) or any((REPO + "/") in l for l in r["err"].splitlines() if "runtime error:" in l)
        if in_repo_code or (r["rc"] < 0 and not frames):
            return True, text
        return None, text + "\n(sanitizer report outside the repository code: not counted as a reproduction)"
    if r["rc"] != 0:
        return None, text
    return False, text


# --------------------------------------------------------------------------------
# check = all groups of one property
# --------------------------------------------------------------------------------
def load_findings():
    p = os.path.join(VERIF, "known_findings.json")
    if not os.path.exists(p):
        return []
    return json.load(open(p)).get("findings", [])


def run_check(pid, tier, jobs=None, only=None, keep=False):
    t0 = time.time()
    seed = int(os.environ.get("VERIF_SEED", "0") or 0)
    mod = load_checks(pid)
    groups = [g for g in mod.GROUPS if g.tier != "off" and (tier == "thorough" or g.tier == "quick")]
    if only:
        groups = [g for g in groups if re.search(only, g.name)]
    findings = [f for f in load_findings() if f.get("property") == pid and f.get("status") == "open"]
    scratch = tempfile.mkdtemp(prefix="verif_%s_" % pid)
    exit_code = 0
    lines = []
    ev_groups = []
    try:
        try:
            gen = prepare(scratch)
        except Undecided as e:
            print("UNDECIDED property=%s %s" % (pid, e))
            write_evidence(pid, tier, seed, mod, [], time.time() - t0, 0, broken=str(e))
            return 2
        jobs = jobs or min(16, max(1, (os.cpu_count() or 4)))
        # heavy groups get fewer parallel slots implicitly through mem limits
        work = []
        for g in groups:
            if g.only_finding:
                # witness run of a known finding: restricted to the finding's input class
                work.append((g, ("-DVERIF_ONLY_" + g.only_finding,), ":only"))
            else:
                ex = tuple("-DVERIF_EXCLUDE_" + f["id"] for f in findings if g.name in f.get("groups", []))
                work.append((g, ex, ""))
        results = []
        with cf.ThreadPoolExecutor(max_workers=jobs) as ex:
            futs = {ex.submit(verify_group, g, gen, scratch, defs, tag): (g, defs, tag) for g, defs, tag in work}
            for fu in cf.as_completed(futs):
                g, defs, tag = futs[fu]
                try:
                    r = fu.result()
                except Exception as e:  # driver bug: undecided, never violation
                    r = dict(group=g.name, tag=tag, obligations=[], status="undecided", detail="driver error: %r" % e,
                             wall=0, bounded=g.bounded, functions=g.functions, entry=g.entry, defs=list(defs))
                results.append((g, defs, tag, r))
                log("[%s] %-40s %-9s %6.1fs  %d obligations" % (pid, g.name + tag, r["status"], r["wall"], len(r["obligations"])))
        results.sort(key=lambda x: [gg.name for gg in groups].index(x[0].name))

        violations, undecided, known = [], [], []
        for g, defs, tag, r in results:
            ob = r["obligations"]
            summary = dict(group=g.name, entry=g.entry, functions=g.functions, bounded=g.bounded, wall_s=round(r["wall"], 2),
                           solver_s=round(r.get("solver_s", 0.0), 2), status=r["status"], defs=r.get("defs"),
                           enforce=g.enforce, replace=g.replace, loop_contracts=g.loops, unwind=g.unwind,
                           instrumentation=("goto-instrument --dfcc" if g.get("dfcc", True) else "goto-instrument --add-library [--apply-loop-contracts] (non-DFCC)"),
                           backend=g.solver or "sat(minisat)", note=g.note)
            if r["status"] == "undecided":
                undecided.append((g, r["detail"]))
                summary["detail"] = r["detail"][-600:]
                ev_groups.append(summary)
                continue
            counted = [o for o in ob if o["kind"] in ("contract", "safety", "internal-safety")]
            flt = getattr(mod, "OBLIGATION_FILTER", None)
            if flt:
                counted = [o for o in counted if flt(o)]
            failed = [o for o in counted if o["status"] == "FAILURE"]
            unknown = [o for o in counted if o["status"] not in ("SUCCESS", "FAILURE")]
            internal_failed = [o for o in ob if o["kind"] == "internal" and o["status"] == "FAILURE"]
            if not failed and not internal_failed and unknown:
                # cbmc leaves properties UNKNOWN when it could not decide them
                internal_failed = unknown
            # other harness entry points of the same file are in the binary but not executed
            reach = [o for o in ob if o["kind"] == "reach" and not ((o.get("function") or "").startswith("h_") and o.get("function") != g.entry)]
            corefn = set(g.functions) | {g.entry} | set(g.get("core_extra") or [])
            def is_core(o):
                return (o.get("function") in corefn) or (o["name"].split(".")[0] in corefn)
            core = [o for o in counted if is_core(o)]
            core_failed = [o for o in core if o["status"] == "FAILURE"]
            summary.update(obligations=len(core), discharged=len(core) - len(core_failed),
                           obligations_incl_linked_code=len(counted), failed_total=len(failed),
                           ignored=len([o for o in ob if o["kind"] == "ignored"]),
                           reach_points=len(reach), contract_obligations=len([o for o in counted if o["kind"] == "contract"]),
                           safety_obligations=len([o for o in counted if o["kind"] != "contract"]),
                           samples=[o["name"] + ": " + o["descr"][:100] for o in ([o for o in core if o["kind"] == "contract"] + core)[:3]])
            if internal_failed and (not failed or any("unwind" in o["name"] for o in internal_failed)):
                undecided.append((g, "internal obligation failed: " + "; ".join(o["name"] + " " + o["descr"][:80] for o in internal_failed[:4])))
                summary["status"] = "undecided"
                ev_groups.append(summary)
                continue
            if not g.noreach and not failed:
                if not reach:
                    undecided.append((g, "no REACH assertion in harness (vacuity guard missing)"))
                    summary["status"] = "undecided"
                    ev_groups.append(summary)
                    continue
                dead = [o for o in reach if o["status"] != "FAILURE"]
                if dead:
                    undecided.append((g, "vacuous: unreachable " + ", ".join(o["descr"] for o in dead)))
                    summary["status"] = "vacuous"
                    ev_groups.append(summary)
                    continue
            if not counted:
                undecided.append((g, "zero obligations generated"))
                summary["status"] = "undecided"
                ev_groups.append(summary)
                continue
            if g.only_finding:
                # expected to fail while the finding is open
                fnd = [f for f in load_findings() if f["id"] == g.only_finding]
                if failed and fnd and fnd[0].get("status") == "open":
                    known.append((fnd[0], failed))
                    summary["status"] = "known-finding"
                elif failed:
                    violations.append((g, defs, r, failed))
                    summary["status"] = "violation"
                else:
                    summary["status"] = "ok(finding no longer reproduces)"
                ev_groups.append(summary)
                continue
            if failed:
                violations.append((g, defs, r, failed))
                summary["status"] = "violation"
                summary["failed"] = [o["name"] + ": " + o["descr"][:120] for o in failed[:6]]
            ev_groups.append(summary)

        # ---- report -----------------------------------------------------------
        for f, failed in known:
            print("KNOWN-FINDING: property=%s %s [%s]" % (pid, f["what"], f["id"]))
        nviol = 0
        for g, defs, r, failed in violations:
            nviol += 1
            def prio(x):
                if re.match(r"^C\d\d:", x["descr"]): return 0
                if "postcondition" in x["name"]: return 1
                if x["kind"] == "safety": return 2
                return 3
            failed = sorted(failed, key=prio)
            o = failed[0]
            rdir = os.path.join(OUT, "replay", pid)
            os.makedirs(rdir, exist_ok=True)
            rpath = os.path.join(rdir, re.sub(r"[^A-Za-z0-9_.-]", "_", g.name + "__" + o["name"]) + ".json")
            trace = get_trace(g, r["_binary"], o["name"])
            rep = dict(property=pid, group=g.name, entry=g.entry, harness=g.src, obligation=o["name"],
                       description=o["descr"], location="%s:%s (%s)" % (o.get("file"), o.get("line"), o.get("function")),
                       other_failed=[x["name"] + ": " + x["descr"] for x in failed[1:10]],
                       cbmc_cmd=r.get("cbmc_cmd"), defs=r.get("defs"))
            reproduced, text = None, ""
            if trace:
                rep["counterexample_inputs"] = [
                    dict(file=v["file"], line=v["line"], lhs=v["lhs"], value=v["data"], binary=v["binary"])
                    for v in trace_inputs(trace)][:400]
                if g.replay == "native":
                    try:
                        reproduced, text = native_replay(g, gen, scratch, trace, defs)
                    except Exception as e:
                        reproduced, text = None, "native replay error: %r" % e
                elif callable(g.replay):
                    try:
                        reproduced, text = g.replay(rep, trace, dict(gen=gen, scratch=scratch, repo=REPO))
                    except Exception as e:
                        reproduced, text = None, "program replay error: %r" % e
            else:
                text = "cbmc produced no trace for this obligation"
            rep["replay_reproduced"] = reproduced
            rep["replay_output"] = text
            rep["verifier_output"] = [x["name"] + " [" + x["status"] + "] " + x["descr"] for x in failed[:40]]
            with open(rpath, "w") as f:
                json.dump(rep, f, indent=1)
            suffix = "" if reproduced else " no-failing-input-found"
            print("VIOLATION property=%s replay=%s obligation=%s%s" % (pid, rpath, o["name"], suffix))
            exit_code = 1
        if undecided:
            for g, d in undecided:
                print("UNDECIDED property=%s group=%s %s" % (pid, g.name, d.replace("\n", " ")[:300]))
            if exit_code == 0:
                exit_code = 2
        write_evidence(pid, tier, seed, mod, ev_groups, time.time() - t0, nviol,
                       known=[f["id"] for f, _ in known])
        tot = sum(s.get("obligations", 0) for s in ev_groups)
        dis = sum(s.get("discharged", 0) for s in ev_groups)
        print("property=%s tier=%s groups=%d obligations=%d discharged=%d violations=%d undecided=%d known=%d wall=%.0fs" %
              (pid, tier, len(ev_groups), tot, dis, nviol, len(undecided), len(known), time.time() - t0))
        return exit_code
    finally:
        if keep:
            log("scratch kept at", scratch)
        else:
            shutil.rmtree(scratch, ignore_errors=True)


def scan_assumes(mod):
    """count __CPROVER_assume / VASSUME / havoc in the harness and stub sources"""
    files = set()
    for g in mod.GROUPS:
        files.add(os.path.join(VERIF, g.src))
        for s in g.stubs:
            files.add(os.path.join(VERIF, s))
    n = 0
    for f in files:
        try:
            txt = open(f).read()
        except OSError:
            continue
        n += len(re.findall(r"__CPROVER_assume|VASSUME|havoc", txt))
    return n, sorted(os.path.relpath(f, VERIF) for f in files)


def write_evidence(pid, tier, seed, mod, ev_groups, wall, nviol, known=(), broken=None):
    os.makedirs(os.path.join(OUT, "evidence"), exist_ok=True)
    proved = [s for s in ev_groups if not s.get("bounded") and s.get("status") in ("ok", "ok(finding no longer reproduces)")]
    bounded = [s for s in ev_groups if s.get("bounded")]
    obligations = sum(s.get("obligations", 0) for s in proved)
    discharged = sum(s.get("discharged", 0) for s in proved)
    nass, files = scan_assumes(mod)
    funcs = sorted({f for s in ev_groups for f in (s.get("functions") or [])})
    level = getattr(mod, "LEVEL", "proof")
    samples = []
    for s in ev_groups[:6]:
        samples += s.get("samples", [])[:2]
    cov = dict(
        obligations=obligations, discharged=discharged,
        checker_cmd="goto-cc --function <entry> <harness.c> [repo TUs] && goto-instrument --dfcc <entry> --enforce-contract <f> "
                    "[--replace-call-with-contract g] [--apply-loop-contracts] && cbmc " + " ".join(DEFAULT_CBMC_FLAGS),
        trusted_base=list(getattr(mod, "TRUSTED_BASE", [])),
        functions_under_contract=funcs,
        groups=ev_groups,
        bounded_groups=[dict(group=s["group"], bound=s["bounded"], obligations=s.get("obligations"), discharged=s.get("discharged")) for s in bounded],
        bounded_obligations=sum(s.get("obligations", 0) for s in bounded),
        solver_seconds=round(sum(s.get("solver_s", 0) for s in ev_groups), 2),
        backend="cbmc 6.11.0 SAT (minisat2) unless a group states otherwise",
        assume_havoc_occurrences_in_harness_and_stubs=nass,
        harness_files=files,
        known_findings_reproduced=list(known),
        not_under_contract=list(getattr(mod, "NOT_COVERED", [])),
        samples=samples or ["(no obligations)"],
        explanation=getattr(mod, "EXPLANATION", ""),
        evaluations=max(1, obligations + sum(s.get("obligations", 0) for s in bounded)), distinct_nontrivial=max(2, len(funcs)),
        rule="one evaluation = one cbmc obligation of one harness decided in this run (unbounded and bounded groups; 'obligations'/'discharged' count the unbounded ones only); distinct_nontrivial = number of distinct real functions under contract",
    )
    if broken:
        cov["broken"] = broken
    ev = dict(property_id=pid, tier=tier, seed=seed, level=level, coverage=cov,
              assumptions=list(getattr(mod, "ASSUMPTIONS", [])), wall_s=round(wall, 1), violations=nviol)
    with open(os.path.join(OUT, "evidence", pid + ".json"), "w") as f:
        json.dump(ev, f, indent=1)


def main(argv):
    import argparse
    ap = argparse.ArgumentParser()
    ap.add_argument("pid")
    ap.add_argument("--tier", default=os.environ.get("VERIF_TIER", "quick"))
    ap.add_argument("--only", default=None)
    ap.add_argument("--jobs", type=int, default=None)
    ap.add_argument("--keep", action="store_true")
    a = ap.parse_args(argv)
    tier = "thorough" if a.tier == "thorough" else "quick"
    return run_check(a.pid, tier, a.jobs, a.only, a.keep)


if __name__ == "__main__":
    sys.exit(main(sys.argv[1:]))
