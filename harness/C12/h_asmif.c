/* C12 harness: the conditional-assembly state machine of the real /repo/asmif.c.
 * Frames are heap objects built by the harness (arbitrary contents within the
 * representation invariant); evaluator / symbol table are ghost oracles. */
#include "verif.h"
#include "contracts/asmif.contracts.h"
#include "asmmac.h"
#include "asmsub.h"
#include "strutil.h"

long long g_ev_val;
int       g_ev_ok, g_ev_flags;
int       g_defined, g_function, g_macro, g_used, g_found;
unsigned  gk_arg;
PIfSave       g_o_top, g_o_next;
int           g_o_ifasm, g_o_state, g_o_cf, g_o_sia, g_o_level;
unsigned long g_o_err;

/* ---- ghost oracles standing in for the formula parser and the symbol table ---- */
LargeInt EvalStrIntExpressionWithFlags(const struct sStrComp* pExpr, IntType Type, Boolean* pResult, tSymbolFlags* pFlags) {
    (void)pExpr;
    (void)Type;
    *pResult = (Boolean)(g_ev_ok != 0);
    *pFlags  = (tSymbolFlags)g_ev_flags;
    return (LargeInt)(LongInt)g_ev_val;
}
Boolean   IsSymbolDefined(const struct sStrComp* pName) { (void)pName; return (Boolean)(g_defined != 0); }
Boolean   IsSymbolUsed(const struct sStrComp* pName) { (void)pName; return (Boolean)(g_used != 0); }
PFunction FindFunction(char const* Name) { (void)Name; return g_function ? (PFunction)&g_function : NULL; }
Boolean   FoundMacroByName(PMacroRec* Erg, StringPtr Name) { (void)Name; *Erg = NULL; return (Boolean)(g_macro != 0); }
void      SetListLineVal(TempResult* t) { (void)t; }
/* evaluator oracle for SWITCH selector and CASE values: each call returns an arbitrary
 * integer or float (or nothing); for CASE the oracle itself records whether a returned
 * value equals the selector -- the specification-side comparison */
int       g_sel_typ, g_sel_flags;
long long g_sel_int;
double    g_sel_flt;
int       g_case_hit, g_case_evals;
static TempResult* g_selector;
void EvalStrExpression(const struct sStrComp* pExpr, TempResult* pErg) {
    int typ, flags; long long iv; double fv;
    (void)pExpr;
    VND(typ, int); VND(flags, int); VND(iv, i64); VND(fv, double);
    if (g_selector == NULL) { typ = g_sel_typ; flags = g_sel_flags; iv = g_sel_int; fv = g_sel_flt; }
    VASSUME(typ == TempNone || typ == TempInt || typ == TempFloat);
    pErg->Flags = (tSymbolFlags)flags;
    if (typ == TempInt) { pErg->Typ = TempInt; pErg->Contents.Int = iv; }
    else if (typ == TempFloat) { pErg->Typ = TempFloat; pErg->Contents.Float = fv; }
    else pErg->Typ = TempNone;
    g_case_evals++;
    if (g_selector != NULL) {
        /* what the manual says EvalIfExpression makes of it: not evaluable -> integer 1 */
        int et = typ; long long ei = iv; double ef = fv;
        if (typ == TempNone || (flags & eSymbolFlag_FirstPassUnknown)) { et = TempInt; ei = 1; }
        if (et == (int)g_selector->Typ &&
            ((et == TempInt && ei == g_selector->Contents.Int) || (et == TempFloat && ef == g_selector->Contents.Float)))
            g_case_hit = 1;
    }
}
#ifdef VERIF_IFEXIST
/* IFEXIST: faithful strmaxcpy (the file name is the subject), FSearch as oracle recording the name it is asked for */
char g_fs_name[STRINGSIZE];
int  g_fs_calls;
size_t strmaxcpy(char* dest, char const* src, size_t Max) {
    size_t i = 0;
    if (Max < 1) return 0;
    while (i < Max - 1 && src[i]) { dest[i] = src[i]; i++; }
    dest[i] = 0;
    return i;
}
void   strmaxprep(char* s1, char const* s2, size_t Max) { (void)s1; (void)s2; (void)Max; }
void   AddSuffix(char* s, char const* Suff) { (void)s; (void)Suff; }
int    FSearch(char* pDest, size_t DestSize, char const* FileToSearch, char const* CurrFileName, char const* SearchPath) {
    size_t i = 0;
    (void)CurrFileName; (void)SearchPath;
    if (DestSize > 0) pDest[0] = 0;
    while (i < STRINGSIZE - 1 && FileToSearch[i]) { g_fs_name[i] = FileToSearch[i]; i++; }
    g_fs_name[i] = 0;
    g_fs_calls++;
    return g_found;
}
#define strmaxcpy strmaxcpy_unused
#endif
size_t    strmaxcpy(char* dest, char const* src, size_t Max) {
    /* bounded write into the destination (ListLine is STRINGSIZE bytes); loop-free on
     * purpose: with --apply-loop-contracts every loop of a callee needs a contract */
    if (Max > 1) {
        dest[0] = src[0];
        dest[1] = 0;
        return 1;
    }
    return 0;
}
/* variadic callees confuse DFCC's write-set passing: as_snprintf is redirected to a
 * fixed-arity stub while the real file is included (listing text is not part of C12) */
static int verif_snprintf0(char* pDest, size_t DestSize) {
    if (DestSize > 0) pDest[0] = 0;
    return 0;
}
#define as_snprintf(d, n, ...) verif_snprintf0((d), (n))

/* strlen monitor for CodeIFB (see contracts): counts calls, records non-empty results.
 * Only the witness argument's buffer is really read; the other arguments' lengths are
 * arbitrary values of the oracle. */
unsigned g_sl_calls;
int      g_sl_nonempty, g_wit_nonempty;
static char wit_buf[4];
static size_t verif_strlen(char const* p) {
    size_t n;
    if (p == wit_buf) {
        n = (wit_buf[0] == 0) ? 0 : (wit_buf[1] == 0) ? 1 : (wit_buf[2] == 0) ? 2 : 3;
    } else {
        VND(n, size_t);
    }
    g_sl_calls++;
    if (n > 0) g_sl_nonempty = 1;
    return n;
}
#ifdef VERIF_MON_STRLEN
#define strlen(p) verif_strlen(p)
#endif

#ifdef VERIF_IFEXIST
#undef strmaxcpy
#endif
#include "asmif.c" /* the real /repo/asmif.c */
#undef strlen

static PIfSave mk_frame(PIfSave next) {
    PIfSave f = malloc(sizeof(TIfSave));
    int     st;
    VASSUME(f != NULL);
    f->Next = next;
    VND(f->NestLevel, short);
    VND(f->SaveIfAsm, uchar);
    VND(f->CaseFound, uchar);
    VND(st, int);
    VASSUME(st >= IfState_IFIF && st <= IfState_CASEELSE);
    f->State = (tIfState)st;
    VND(f->StartLine, int);
    as_tempres_ini(&f->SaveExpr);
    VASSUME(f->SaveIfAsm <= 1 && f->CaseFound <= 1);
    VASSUME(f->NestLevel == (next ? next->NestLevel + 1 : 1) && f->NestLevel < 32000);
    return f;
}

static char listline_buf[STRINGSIZE];
static char argbuf[4][4];
static tStrComp argcomp[4];
static TempResult argcomp_dummy_sel;

/* arbitrary state satisfying the representation invariant, depth 0, 1 or 2 (+ an
 * opaque rest that no function under contract reads) */
static void mk_state(void) {
    int depth;
    PIfSave rest = NULL;
    int i;
    VND(depth, int);
    VASSUME(depth >= 0 && depth <= 2);
    FirstIfSave = NULL;
    if (depth >= 2) FirstIfSave = mk_frame(NULL);
    if (depth >= 1) FirstIfSave = mk_frame(FirstIfSave);
    (void)rest;
    VND(IfAsm, uchar);
    VASSUME(IfAsm <= 1);
    VASSUME(INV_I);
    /* frames below the top: an inactive outer level keeps the inner ones inactive */
    VASSUME(depth < 2 || FirstIfSave->Next->SaveIfAsm || !FirstIfSave->SaveIfAsm);
    ListLine = listline_buf;
    VND(ArgCnt, int);
    VASSUME(ArgCnt >= 0 && ArgCnt <= 3);
    for (i = 0; i < 4; i++) {
        VND_BYTES(argbuf[i], 4);
        argbuf[i][3] = 0;
        argcomp[i].str.p_str = argbuf[i];
        argcomp[i].str.capacity = 4;
        argcomp[i].str.dynamic = 0;
    }
    ArgStr = argcomp;
    VND(g_ev_val, i64); VND(g_ev_ok, int); VND(g_ev_flags, int);
    VND(g_defined, int); VND(g_function, int); VND(g_macro, int); VND(g_used, int); VND(g_found, int);
    VND(g_err_cnt, ulong);
    VASSUME(g_err_cnt < 1000000);
    VND(CurrLine, int);
    /* ghost snapshot (all ghost globals are assigned: statics are nondeterministic under --dfcc) */
    g_selector = NULL;
    g_case_hit = 0; g_case_evals = 0; g_sl_calls = 0; g_sl_nonempty = 0; g_wit_nonempty = 0; gk_arg = 0;
    g_sel_typ = TempNone; g_sel_flags = 0; g_sel_int = 0; g_sel_flt = 0;
    g_o_state = 0; g_o_cf = 0; g_o_sia = 0; g_o_next = NULL; g_o_level = 0;
    g_err_last = 0;
    g_o_top = FirstIfSave;
    g_o_ifasm = IfAsm;
    g_o_err = g_err_cnt;
    if (FirstIfSave) {
        g_o_state = FirstIfSave->State;
        g_o_cf = FirstIfSave->CaseFound;
        g_o_sia = FirstIfSave->SaveIfAsm;
        g_o_next = FirstIfSave->Next;
        g_o_level = FirstIfSave->NestLevel;
    }
}

#define OPEN_POST(cond, what)                                                                   \
    VPOST(POST_OPEN(g_o_top, g_o_ifasm, cond), "C12: " what " pushes a frame; assembled iff enclosing level is and the condition holds"); \
    VPOST(!(g_o_ifasm && ArgCnt != 1) || g_err_cnt == g_o_err + 1, "C12: " what " wrong argument count is reported");

void h_CodeIF(void) {
    mk_state();
    CodeIF();
    OPEN_POST((ArgCnt != 1) || COND_TRUE, "IF")
    VREACH("end");
}
void h_CodeIFDEF(void) {
    Word neg;
    mk_state();
    VND(neg, ushort);
    VASSUME(neg <= 1);
    CodeIFDEF(neg);
    OPEN_POST((ArgCnt != 1) || (((g_defined || g_function || g_macro) != 0) != (neg != 0)), "IFDEF/IFNDEF")
    VREACH("end");
}
void h_CodeIFUSED(void) {
    Word neg;
    mk_state();
    VND(neg, ushort);
    VASSUME(neg <= 1);
    CodeIFUSED(neg);
    OPEN_POST((ArgCnt != 1) || ((g_used != 0) != (neg != 0)), "IFUSED/IFNUSED")
    VREACH("end");
}

void h_CodeELSEIF(void) {
    mk_state();
    CodeELSEIF();
    if (!O_ELSE_OK || ArgCnt > 1) {
        VPOST(g_err_cnt == g_o_err + 1 && TOP == g_o_top && IfAsm == g_o_ifasm, "C12: misplaced ELSE/ELSEIF is an error and changes nothing");
        VREACH("misplaced");
    } else if (ArgCnt == 0) {
        VPOST(TOP == g_o_top && TOP->State == IfState_IFELSE && (IfAsm != 0) == (TOP->SaveIfAsm && !g_o_cf) && INV_I,
              "C12: ELSE assembled iff enclosing level is and no earlier branch was taken");
        VREACH("else");
    } else {
        VPOST(TOP == g_o_top && TOP->State == IfState_IFIF && (IfAsm != 0) == (TOP->SaveIfAsm && !g_o_cf && COND_TRUE) &&
              (!g_o_cf || TOP->CaseFound) && (!IfAsm || TOP->CaseFound) && INV_I,
              "C12: ELSEIF assembled iff enclosing level is, none taken so far and its condition holds");
        VREACH("elseif");
    }
}

void h_CodeENDIF(void) {
    mk_state();
    CodeENDIF();
    if (ArgCnt == 0 && O_ENDIF_OK) {
        VPOST(TOP == g_o_next && (IfAsm != 0) == (g_o_sia != 0) && g_err_cnt == g_o_err, "C12: ENDIF pops and restores the enclosing level");
        VREACH("pop");
    } else {
        VPOST(g_err_cnt == g_o_err + 1 && TOP == g_o_top && IfAsm == g_o_ifasm, "C12: misplaced ENDIF is an error and changes nothing");
        VREACH("misplaced");
    }
}

void h_CodeELSECASE(void) {
    mk_state();
    CodeELSECASE();
    if (ArgCnt != 0) {
        VPOST(g_err_cnt == g_o_err + 1 && TOP == g_o_top && IfAsm == g_o_ifasm, "C12: ELSECASE with arguments is an error");
        VREACH("args");
    } else if (g_o_top == NULL) {
        VPOST(g_err_cnt >= g_o_err + 1 && TOP == NULL && IfAsm == g_o_ifasm, "C12: ELSECASE without SWITCH is an error");
        VREACH("nostack");
    } else if (!O_CASE_STATE_OK) {
        VPOST(g_err_cnt >= g_o_err + 1, "C12: ELSECASE outside SWITCH/CASE is an error");
        VREACH("wrongstate");
    } else {
        VPOST(TOP == g_o_top && (IfAsm != 0) == (TOP->SaveIfAsm && !g_o_cf) && TOP->CaseFound && TOP->State == IfState_CASEELSE &&
              g_err_cnt == g_o_err && INV_I, "C12: ELSECASE assembled iff enclosing level is and no CASE matched");
        VREACH("ok");
    }
}

void h_CodeENDCASE(void) {
    mk_state();
    CodeENDCASE();
    if (ArgCnt == 0 && O_ENDCASE_OK) {
        VPOST(TOP == g_o_next && (IfAsm != 0) == (g_o_sia != 0), "C12: ENDCASE pops and restores the enclosing level");
        VREACH("pop");
    } else {
        VPOST(g_err_cnt == g_o_err + 1 && TOP == g_o_top && IfAsm == g_o_ifasm, "C12: misplaced ENDCASE is an error and changes nothing");
        VREACH("misplaced");
    }
}

void h_PushIF(void) {
    LongInt e;
    mk_state();
    VND(e, int);
    PushIF(e);
    VPOST(PUSHED(g_o_top, g_o_ifasm, IfState_IFIF) && (IfAsm != 0) == (g_o_ifasm && e != 0) && (TOP->CaseFound != 0) == (e != 0),
          "C12: PushIF");
    VREACH("end");
}

/* IFB/IFNB with an argument list of arbitrary length (loop contract asmif_ifb) */
void h_CodeIFB(void) {
    Word neg;
    mk_state();
    VND(ArgCnt, int);
    VASSUME(ArgCnt >= 0 && ArgCnt <= ArgCntMax);
    ArgStr = malloc(((size_t)ArgCnt + 1) * sizeof(tStrComp));
    VASSUME(ArgStr != NULL);
    VND(gk_arg, uint);
    VASSUME(gk_arg >= 1 && gk_arg <= (unsigned)ArgCnt + 1);
    VND_BYTES(wit_buf, 4);
    wit_buf[3] = 0;
    if (gk_arg <= (unsigned)ArgCnt) ArgStr[gk_arg].str.p_str = wit_buf;
    g_wit_nonempty = (wit_buf[0] != 0);
    g_sl_calls = 0;
    g_sl_nonempty = 0;
    VND(neg, ushort);
    VASSUME(neg <= 1);
    CodeIFB(neg);
    VPOST(POST_OPEN(g_o_top, g_o_ifasm, ((g_sl_nonempty == 0) != (neg != 0))), "C12: IFB/IFNB assembled iff enclosing level is and (all arguments blank) xor negate");
    VPOST(!g_o_ifasm || g_sl_calls == (unsigned)ArgCnt, "C12: IFB looks at every argument exactly once");
    VPOST(!(g_o_ifasm && gk_arg <= (unsigned)ArgCnt && g_wit_nonempty) || g_sl_nonempty, "C12: IFB a non-empty argument makes the list non-blank");
    VREACH("end");
}

void h_CodeSWITCH(void) {
    mk_state();
    g_selector = NULL;
    VND(g_sel_typ, int); VND(g_sel_flags, int); VND(g_sel_int, i64); VND(g_sel_flt, double);
    VASSUME(g_sel_typ == TempNone || g_sel_typ == TempInt || g_sel_typ == TempFloat);
    CodeSWITCH();
    VPOST(PUSHED(g_o_top, g_o_ifasm, IfState_CASESWITCH) && !TOP->CaseFound && IfAsm == g_o_ifasm, "C12: SWITCH pushes a frame, nothing matched yet");
    VPOST(!(g_o_ifasm && ArgCnt == 1 && g_sel_typ == TempInt && !(g_sel_flags & eSymbolFlag_FirstPassUnknown)) ||
          (TOP->SaveExpr.Typ == TempInt && TOP->SaveExpr.Contents.Int == g_sel_int), "C12: SWITCH stores the integer selector");
    VPOST(!(g_o_ifasm && ArgCnt != 1) || g_err_cnt == g_o_err + 1, "C12: SWITCH wrong argument count is reported");
    VREACH("end");
}

void h_CodeCASE(void) {
    mk_state();
    if (FirstIfSave) {
        int t;
        VND(t, int);
        VASSUME(t == TempInt || t == TempFloat);
        FirstIfSave->SaveExpr.Typ = (TempType)t;
        VND(FirstIfSave->SaveExpr.Contents.Int, i64); /* int or float bits */
        g_selector = &FirstIfSave->SaveExpr;
    } else {
        g_selector = &argcomp_dummy_sel;
    }
    g_case_hit = 0;
    g_case_evals = 0;
    CodeCASE();
    if (g_o_top == NULL) {
        VPOST(g_err_cnt == g_o_err + 1 && TOP == NULL && IfAsm == g_o_ifasm, "C12: CASE without SWITCH is an error");
        VREACH("nostack");
    } else if (ArgCnt >= 1 && !O_CASE_STATE_OK) {
        VPOST(g_err_cnt == g_o_err + 1 && TOP == g_o_top && IfAsm == g_o_ifasm, "C12: CASE outside SWITCH is an error and changes nothing");
        VREACH("wrongstate");
    } else if (ArgCnt >= 1) {
        VPOST(TOP == g_o_top && TOP->State == IfState_CASECASE && (IfAsm != 0) == (g_o_sia && !g_o_cf && g_case_hit),
              "C12: CASE assembled iff enclosing level is, no earlier CASE matched and a listed value equals the selector");
        VPOST((!g_o_cf || TOP->CaseFound) && (!IfAsm || TOP->CaseFound) && INV_I, "C12: CASE matched is sticky");
        VREACH("case");
    }
}

void h_RestoreIFs(void) {
    Integer lvl;
    int next_level = -1;
    mk_state();
    VND(lvl, short);
    if (FirstIfSave != NULL && FirstIfSave->Next != NULL) next_level = FirstIfSave->Next->NestLevel;
    RestoreIFs(lvl);
    VPOST(TOP == NULL || TOP->NestLevel == lvl, "C12: RestoreIFs pops down to the saved level");
    VPOST(!(g_o_top != NULL && g_o_level == lvl) || (TOP == g_o_top && IfAsm == g_o_ifasm), "C12: RestoreIFs at the saved level changes nothing");
    VPOST(!(g_o_top != NULL && g_o_level != lvl && g_o_next != NULL && next_level == lvl) || (TOP == g_o_next && (IfAsm != 0) == (g_o_sia != 0)),
          "C12: RestoreIFs one level up restores that level's activity");
    VREACH("end");
}

/* ---- dispatcher CodeIFs: mnemonic -> statement --------------------------------------- */
static char opbuf[12];
static void set_op(char const* m) {
    int i;
    for (i = 0; i < 11 && m[i]; i++) opbuf[i] = m[i];
    opbuf[i] = 0;
    OpPart.str.p_str = opbuf;
    OpPart.str.capacity = sizeof(opbuf);
}
#define DISPATCH(name, mnemo, post, what)                      \
    void h_CodeIFs_##name(void) {                              \
        Boolean r;                                             \
        mk_state();                                            \
        set_op(mnemo);                                         \
        SwitchIsOccupied = False;                              \
        r = CodeIFs();                                         \
        VPOST(r, "C12: " mnemo " is recognised as a conditional statement"); \
        VPOST(post, "C12: " mnemo " " what);                   \
        VREACH("end");                                         \
    }
DISPATCH(IF, "IF", POST_OPEN(g_o_top, g_o_ifasm, (ArgCnt != 1) || COND_TRUE), "behaves as IF")
DISPATCH(IFDEF, "IFDEF", POST_OPEN(g_o_top, g_o_ifasm, (ArgCnt != 1) || ((g_defined || g_function || g_macro) != 0)), "assembled iff defined")
DISPATCH(IFNDEF, "IFNDEF", POST_OPEN(g_o_top, g_o_ifasm, (ArgCnt != 1) || !((g_defined || g_function || g_macro) != 0)), "assembled iff not defined")
DISPATCH(IFUSED, "IFUSED", POST_OPEN(g_o_top, g_o_ifasm, (ArgCnt != 1) || (g_used != 0)), "assembled iff used")
DISPATCH(IFNUSED, "IFNUSED", POST_OPEN(g_o_top, g_o_ifasm, (ArgCnt != 1) || (g_used == 0)), "assembled iff not used")
#define POST_ELSE (( !O_ELSE_OK || ArgCnt > 1) ? (g_err_cnt == g_o_err + 1 && TOP == g_o_top && IfAsm == g_o_ifasm) \
    : (ArgCnt == 0) ? (TOP == g_o_top && TOP->State == IfState_IFELSE && (IfAsm != 0) == (TOP->SaveIfAsm && !g_o_cf)) \
    : (TOP == g_o_top && TOP->State == IfState_IFIF && (IfAsm != 0) == (TOP->SaveIfAsm && !g_o_cf && COND_TRUE)))
DISPATCH(ELSE, "ELSE", POST_ELSE, "behaves as ELSE/ELSEIF")
DISPATCH(ELSEIF, "ELSEIF", POST_ELSE, "behaves as ELSE/ELSEIF")
#define POST_ENDIF ((ArgCnt == 0 && O_ENDIF_OK) ? (TOP == g_o_next && (IfAsm != 0) == (g_o_sia != 0)) \
    : (g_err_cnt == g_o_err + 1 && TOP == g_o_top && IfAsm == g_o_ifasm))
DISPATCH(ENDIF, "ENDIF", POST_ENDIF, "behaves as ENDIF")
DISPATCH(ENDC, "ENDC", POST_ENDIF, "behaves as ENDIF")
#define POST_ENDCASE ((ArgCnt == 0 && O_ENDCASE_OK) ? (TOP == g_o_next && (IfAsm != 0) == (g_o_sia != 0)) \
    : (g_err_cnt == g_o_err + 1 && TOP == g_o_top && IfAsm == g_o_ifasm))
DISPATCH(ENDCASE, "ENDCASE", POST_ENDCASE, "behaves as ENDCASE")
DISPATCH(SWITCH, "SWITCH", PUSHED(g_o_top, g_o_ifasm, IfState_CASESWITCH) && !TOP->CaseFound && IfAsm == g_o_ifasm, "pushes a SWITCH frame")

/* any other mnemonic (symbolic, up to 8 characters): not a conditional statement, state untouched */
void h_CodeIFs_other(void) {
    Boolean r;
    mk_state();
    VND_BYTES(opbuf, 9);
    opbuf[8] = 0;
    OpPart.str.p_str = opbuf;
    VND(SwitchIsOccupied, uchar);
    VASSUME(strcmp(opbuf, "IF") && strcmp(opbuf, "IFDEF") && strcmp(opbuf, "IFNDEF") && strcmp(opbuf, "IFUSED") &&
            strcmp(opbuf, "IFNUSED") && strcmp(opbuf, "IFEXIST") && strcmp(opbuf, "IFNEXIST") && strcmp(opbuf, "IFB") &&
            strcmp(opbuf, "IFNB") && strcmp(opbuf, "ELSE") && strcmp(opbuf, "ELSEIF") && strcmp(opbuf, "ELSEC") &&
            strcmp(opbuf, "ENDIF") && strcmp(opbuf, "ENDC") && strcmp(opbuf, "ELSECASE") && strcmp(opbuf, "ENDCASE") &&
            strcmp(opbuf, "SWITCH") && strcmp(opbuf, "SELECT") && strcmp(opbuf, "CASE"));
    r = CodeIFs();
    VPOST(!r, "C12: other statements are not taken for conditional statements");
    VPOST(TOP == g_o_top && IfAsm == g_o_ifasm && g_err_cnt == g_o_err, "C12: other statements leave the conditional state untouched");
    VREACH("end");
}

#ifdef VERIF_IFEXIST
/* IFEXIST / IFNEXIST: argument of 0..3 arbitrary characters (so: with, without, with half a pair of quotes); the file
 * search is an oracle.  Obligations: the branch is assembled iff the enclosing level is and (found xor negate); the name
 * handed to the search is the argument without its enclosing quotes; no access outside the local buffers. */
void h_CodeIFEXIST(void) {
    Word neg;
    size_t l, k;
    char exp[4];
    mk_state();
    VND(neg, ushort);
    VASSUME(neg <= 1);
    g_fs_calls = 0;
    g_fs_name[0] = 0;
    { static char inc[4]; inc[0] = 0; IncludeList = inc; }
    /* expected name */
    l = 0;
    while (l < 3 && argbuf[1][l]) l++;
    k = (argbuf[1][0] == '"') ? 1 : 0;
    { size_t n = 0; while (k < l) exp[n++] = argbuf[1][k++]; exp[n] = 0; if (n > 0 && exp[n - 1] == '"') exp[n - 1] = 0; }
    CodeIFEXIST(neg);
    if (g_o_ifasm && ArgCnt == 1) {
        VPOST(g_fs_calls == 1, "C12: IFEXIST searches once");
        VPOST(!strcmp(g_fs_name, exp), "C12: IFEXIST searches the argument without its enclosing quotes");
        VPOST(POST_OPEN(g_o_top, g_o_ifasm, ((g_found == 0) != (neg != 0))), "C12: IFEXIST/IFNEXIST assembled iff enclosing level is and (file found) xor negate");
        VREACH("searched");
        if (l == 1 && argbuf[1][0] == '"') VREACH("lone quote");
    } else {
        VPOST(g_fs_calls == 0, "C12: IFEXIST in a skipped branch or with a wrong argument count does not touch the file system");
        VPOST(POST_OPEN(g_o_top, g_o_ifasm, 1), "C12: IFEXIST not evaluated counts as true below the enclosing level");
        VREACH("not evaluated");
    }
}
#endif
