/* C05 / C19 harness: the used-address bookkeeping of the real /repo/chunks.c (overlap warning of p2bin/p2hex, usage
 * map of the listing).  AddChunk on a list of up to 3 disjoint, non-touching chunks: the warning is given exactly when
 * the new range shares an address with a range already entered; afterwards the list covers exactly the old addresses
 * plus the new range (witness address), and its chunks are again disjoint and non-touching. */
#include "verif.h"
#include <stdio.h>
#include <stdlib.h>
#include <string.h>
#include "stdinc.h"
#include "stubs/gerr.h"
#include "contracts/loop_defaults.h"
#include "chunks.c" /* the real /repo/chunks.c */

#ifndef VERIF_CHUNKS
#define VERIF_CHUNKS 2
#endif
#ifndef VERIF_AMAX
#define VERIF_AMAX 0xffffffffULL
#endif
static int covered(ChunkList const* l, unsigned long long a) {
    int i, c = 0;
    for (i = 0; i < 4; i++) if (i < (int)l->RealLen && a >= l->Chunks[i].Start && a - l->Chunks[i].Start < l->Chunks[i].Length) c++;
    return c;
}
void h_AddChunk(void) {
    ChunkList l; OneChunk old[3]; int n, i, j; unsigned long long ns, nl, a; int share = 0, cov0; Boolean r, warn;
    VND(n, int); VASSUME(n >= 0 && n <= VERIF_CHUNKS);
    l.Chunks = malloc(4 * sizeof(OneChunk)); VASSUME(l.Chunks != NULL); l.AllocLen = 4; l.RealLen = (Word)n;
    for (i = 0; i < 3; i++) { VND(l.Chunks[i].Start, u64); VND(l.Chunks[i].Length, u64);
        VASSUME(l.Chunks[i].Start <= VERIF_AMAX && l.Chunks[i].Length >= 1 && l.Chunks[i].Length <= VERIF_AMAX); old[i] = l.Chunks[i]; }
    /* invariant of the list: chunks are pairwise disjoint and do not touch (AddChunk merges what touches) */
    for (i = 0; i < 3; i++) for (j = 0; j < 3; j++) if (i < j && j < n)
        VASSUME(old[i].Start + old[i].Length < old[j].Start || old[j].Start + old[j].Length < old[i].Start);
    VND(ns, u64); VND(nl, u64); VASSUME(ns <= VERIF_AMAX && nl <= VERIF_AMAX); VND(warn, uchar); VASSUME(warn <= 1);
    VND(a, u64); VASSUME(a <= 3 * VERIF_AMAX);
    cov0 = covered(&l, a);
    for (i = 0; i < 3; i++) if (i < n && nl > 0 && ns < old[i].Start + old[i].Length && old[i].Start < ns + nl) share = 1;
    r = AddChunk(&l, ns, nl, warn);
    VPOST((r != 0) == (warn && share), "C05: the overlap warning is given exactly when the new range shares an address with a range entered before");
    VPOST(l.RealLen <= 4, "C05: the list stays within its allocation");
#ifndef VERIF_WARN_ONLY
    VPOST(covered(&l, a) == ((cov0 || (nl > 0 && a >= ns && a - ns < nl)) ? 1 : 0), "C05: the list covers exactly the addresses entered so far, each by one chunk");
    for (i = 0; i < 4; i++) for (j = 0; j < 4; j++) if (i < j && j < (int)l.RealLen)
        VPOST(l.Chunks[i].Start + l.Chunks[i].Length < l.Chunks[j].Start || l.Chunks[j].Start + l.Chunks[j].Length < l.Chunks[i].Start,
              "C05: afterwards the chunks are again pairwise disjoint and non-touching");
#endif
    VREACH("end");
}
