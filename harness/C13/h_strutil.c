/* C13 / C03 harness: bounded string helpers of the real /repo/strutil.c that build composed symbol names */
#include "verif.h"
#include <stdio.h>
#include <stdlib.h>
#include <string.h>
#include "stdinc.h"

/* memmove with a symbolic length: bounded byte loop through a temporary, with the range obligations of the real one
 * (CBMC's library model with a variable-length array lost bytes in sym_ChkTmp2, see DESIGN.md) */
static void* verif_memmove(void* d, void const* s, size_t n) {
    char tmp[24]; size_t i;
    VASSERT(n == 0 || (__CPROVER_w_ok(d, n) && __CPROVER_r_ok(s, n)), "C03: memmove stays inside source and destination objects");
    VASSERT(n <= 24, "harness: memmove monitor capacity");
    for (i = 0; i < n && i < 24; i++) tmp[i] = ((char const*)s)[i];
    for (i = 0; i < n && i < 24; i++) ((char*)d)[i] = tmp[i];
    return d;
}
#define memmove(d, s, n) verif_memmove((d), (s), (n))
#ifdef VERIF_READLN
/* fgets oracle for ReadLnCont: every call delivers the next chunk of the file: 0..3 arbitrary characters (no NUL, no LF)
 * optionally followed by LF.  A chunk without LF means the file ends there (the buffer offered is >= 128 bytes), later calls
 * return NULL.  Ghosts count the physical lines delivered. */
static int g_chunks, g_nulls, g_eof, g_quirk, g_last_unterminated;
static char* verif_fgets(char* d, int n, FILE* f) {
    unsigned len, i; int lf; char c[3];
    (void)f;
    VASSERT(n >= 128, "C03: ReadLnCont offers fgets at least 128 bytes");
    if (g_eof || g_chunks >= 3) { g_eof = 1; g_nulls++; if (!g_last_unterminated) g_quirk = 1; g_last_unterminated = 0; return NULL; }
    VND(len, uint); VASSUME(len <= 3); VND(lf, int); VASSUME(lf == 0 || lf == 1);
    VND_BYTES(c, 3);
    for (i = 0; i < 3; i++) VASSUME(c[i] != 0 && c[i] != '\n');
    VASSUME(c[0] != '\\' || len == 1); VASSUME(c[1] != '\\' || len == 2); /* a backslash only as the last character (keeps the join loop short) */
    if (len == 0 && !lf) { g_eof = 1; g_nulls++; g_quirk = 1; g_last_unterminated = 0; return NULL; } /* nothing left at all */
    for (i = 0; i < len; i++) d[i] = c[i];
    if (lf) d[len++] = '\n';
    d[len] = 0;
    g_chunks++;
    g_last_unterminated = !lf;
    if (!lf) g_eof = 1;
    return d;
}
#define fgets(d, n, f) verif_fgets((d), (n), (f))
#define ferror(f) 0
#endif
#include "strutil.c" /* the real /repo/strutil.c */
#undef memmove
#ifdef VERIF_READLN
#undef fgets
#undef ferror
#endif

static size_t slen(char const* p, size_t cap) { size_t n = 0; while (n < cap && p[n]) n++; return n; }

/* strmaxprep2(dest, src, max): "prepend as much as possible from src to dest, and possibly truncate dest by that".
 * dest is a buffer of exactly max bytes holding a string; src a string of 0..9 characters. */
void h_strmaxprep2(void) {
    size_t max, dl, sl, i, k, want_s, want_d;
    char *dest, src[10], d0[8];
    VND(max, size_t); VASSUME(max >= 1 && max <= 8);
    dest = malloc(max); VASSUME(dest != NULL);
    VND_BYTES(src, 10); src[9] = 0;
    dl = slen(dest, max); VASSUME(dl < max);          /* dest holds a string */
    sl = slen(src, 10);
    for (i = 0; i < 8; i++) d0[i] = (i < max) ? dest[i] : 0;
    want_s = sl < max - 1 ? sl : max - 1;                 /* as much of src as fits */
    want_d = dl < max - 1 - want_s ? dl : max - 1 - want_s; /* then as much of the old dest as still fits */
    strmaxprep2(dest, src, max);
    VPOST(slen(dest, max) < max, "C03/C13: strmaxprep2 leaves a terminated string inside the buffer");
    VPOST(slen(dest, max) == want_s + want_d, "C13: strmaxprep2 result length = fitting part of src + fitting part of dest");
    VND(k, size_t); VASSUME(k < want_s + want_d);
    VPOST(dest[k] == (k < want_s ? src[k] : d0[k - want_s]), "C13: strmaxprep2 result is src's prefix followed by dest's prefix");
    VREACH("end");
    if (dl > max - 1 - want_s) VREACH("dest truncated");
    if (sl > max - 1) VREACH("src truncated");
}

/* strmaxprep(dest, src, max): prepend what fits, dest is kept whole */
void h_strmaxprep(void) {
    size_t max, dl, sl, i, k, want_s;
    char *dest, src[10], d0[8];
    VND(max, size_t); VASSUME(max >= 1 && max <= 8);
    dest = malloc(max); VASSUME(dest != NULL);
    VND_BYTES(src, 10); src[9] = 0;
    dl = slen(dest, max); VASSUME(dl < max);
    sl = slen(src, 10);
    for (i = 0; i < 8; i++) d0[i] = (i < max) ? dest[i] : 0;
    want_s = sl < max - 1 - dl ? sl : max - 1 - dl;
    strmaxprep(dest, src, max);
    VPOST(slen(dest, max) == want_s + dl, "C03/C13: strmaxprep leaves a terminated string: fitting part of src + all of dest");
    VND(k, size_t); VASSUME(k < want_s + dl);
    VPOST(dest[k] == (k < want_s ? src[k] : d0[k - want_s]), "C13: strmaxprep result is src's prefix followed by dest");
    VREACH("end");
}

#ifdef VERIF_READLN
int as_dynstr_realloc(as_dynstr_t* p_str, size_t new_alloc_len) { (void)p_str; (void)new_alloc_len; VASSERT(0, "harness: line buffer large enough, no reallocation expected"); return 0; }
/* ReadLnCont: the number it returns is added to the line counter that diagnostics, listing and debug info name; it has to be
 * the number of physical lines the logical line was joined from (files of at most 3 chunks of 0..3 characters). */
void h_ReadLnCont(void) {
    static char buf[144];
    as_dynstr_t line;
    size_t r;
    line.p_str = buf; line.capacity = 144; line.dynamic = 0;
    g_chunks = 0; g_nulls = 0; g_eof = 0; g_quirk = 0; g_last_unterminated = 0;
    r = ReadLnCont((FILE*)0, &line);
    VPOST(r >= 1, "C20: a read advances the line counter");
    if (!g_quirk) {
        VPOST(r == (size_t)g_chunks, "C20: ReadLnCont returns the number of physical lines consumed (a last line without newline counts)");
        VREACH("counted");
        if (g_last_unterminated == 0 && g_nulls == 1) VREACH("last line without newline");
        if (g_chunks == 3) VREACH("two continuations");
    }
    VREACH("end");
}
#endif
