/* C09 harness: byte-placing helpers of the real /repo/motpseudo.c */
#include "verif.h"
#include "contracts/motpseudo.contracts.h"

unsigned g_listgran, gk_j, gk_q, g_q_val;
unsigned long g_o_codelen;

Word ListGran(void) { return (Word)g_listgran; }

/* ---- environment of DecodeMotoDC (ghost oracles and monitors) --------------------------- */
#include "asmpars.h"
#include "asmcode.h"
#include "ieeefloat.h"
char g_txt_q[2], g_txt_v[2];
int  g_rep, g_cut_ok;
static long long g_epc;
static int       g_pad_calls, g_pad_reserve, g_opsize, g_wsize, g_rc_calls, g_rc_type_ok, g_setmax_calls;
static int       g_in_dc;
LargeWord EProgCounter(void) { return (LargeWord)g_epc; }
void     SetSymbolOrStructElemSize(const struct sStrComp* pName, tSymbolSize Size) { (void)pName; (void)Size; }
void     InsertPadding(unsigned NumBytes, Boolean OnlyReserve) {
    (void)NumBytes;
    g_pad_calls++;
    g_pad_reserve = OnlyReserve;
    CodeLen = 0; /* the real one writes the padding out at once and leaves CodeLen = 0 */
}
/* expression oracle: an arbitrary integer or float, or nothing (error already reported) */
void EvalStrExpression(const struct sStrComp* pExpr, TempResult* pErg) {
    int typ;
    (void)pExpr;
    VND(typ, int);
    VASSUME(typ == TempNone || typ == TempInt || typ == TempFloat);
    VND(pErg->Flags, uint);
    if (typ == TempInt) { pErg->Typ = TempInt; VND(pErg->Contents.Int, i64); }
    else if (typ == TempFloat) { pErg->Typ = TempFloat; VND(pErg->Contents.Float, double); }
    else pErg->Typ = TempNone;
}
static int expected_int_type(int opsize) {
    switch (opsize) {
    case eSymbolSize8Bit: return Int8;
    case eSymbolSize16Bit: return Int16;
    case eSymbolSize24Bit: return Int24;
    case eSymbolSize32Bit: return Int32;
    case eSymbolSize64Bit: return Int64;
    default: return -1;
    }
}
/* range check oracle + monitor: the type must be the one belonging to the operand size */
Boolean RangeCheck(LargeInt Wert, IntType Typ) {
    Boolean r;
    (void)Wert;
    g_rc_calls++;
    if ((int)Typ != expected_int_type(g_opsize)) g_rc_type_ok = 0;
    VND(r, uchar);
    return (Boolean)(r & 1);
}
Boolean FloatRangeCheck(Double Wert, FloatType Typ) { Boolean r; (void)Wert; (void)Typ; VND(r, uchar); return (Boolean)(r & 1); }
Boolean MultiCharToInt(TempResult* pResult, unsigned MaxLen) { (void)pResult; (void)MaxLen; return False; }
/* buffer growth: same decisions as asmdef.c's SetMaxCodeLen; the monitor checks that the
 * requested size is the true (64-bit) need, i.e. that the caller's arithmetic did not wrap */
static long long g_need; static int g_setmax_nobound;
int SetMaxCodeLen(LongWord NewMaxCodeLen) {
    g_setmax_calls++;
    VASSERT((long long)NewMaxCodeLen == (long long)CodeLen + (long long)g_rep * g_wsize,
            "C09: DC reserves exactly CodeLen + Rep*size bytes (no 32-bit wrap) before writing");
    if (NewMaxCodeLen > MaxCodeLen_Max) return 1;
    /* from here on the repetition loops are explored for small counts only (bounded) */
    if (!g_setmax_nobound) VASSUME(g_rep <= 2);
    if (NewMaxCodeLen > MaxCodeLen) {
        free(BAsmCode);
        BAsmCode = malloc(NewMaxCodeLen);
        VASSUME(BAsmCode != NULL);
        WAsmCode = (Word*)BAsmCode;
        DAsmCode = (LongWord*)BAsmCode;
        MaxCodeLen = NewMaxCodeLen;
    }
    return 0;
}
/* float converters: proved separately (h_ieeefloat.c); here they only fill their bytes */
void    Double_2_ieee4(Double inp, Byte* pDest, Boolean NeedsBig) { (void)inp; (void)NeedsBig; VND_BYTES(pDest, 4); }
void    Double_2_ieee8(Double inp, Byte* pDest, Boolean NeedsBig) { (void)inp; (void)NeedsBig; VND_BYTES(pDest, 8); }
void    Double_2_ieee10(Double inp, Byte* pDest, Boolean NeedsBig) { (void)inp; (void)NeedsBig; VND_BYTES(pDest, 10); }
Boolean Double_2_ieee2(Double inp, Byte* pDest, Boolean NeedsBig) { (void)inp; (void)NeedsBig; VND_BYTES(pDest, 2); return True; }

/* variadic as_snprintf (used by ConvertMotoFloatDec only, which no group reaches) */
#include "strutil.h"
static int verif_snprintf0(char* d, size_t n) { if (n) d[0] = 0; return 0; }
#define as_snprintf(d, n, ...) verif_snprintf0((d), (n))
#include "motpseudo.c" /* the real /repo/motpseudo.c */
#undef as_snprintf

static void mk_buf(unsigned n) {
    VND(MaxCodeLen, uint);
    VASSUME(MaxCodeLen >= 2 && MaxCodeLen <= 65535 && (MaxCodeLen & 1) == 0);
    BAsmCode = malloc(MaxCodeLen);
    VASSUME(BAsmCode != NULL);
    WAsmCode = (Word*)BAsmCode;
    DAsmCode = (LongWord*)BAsmCode;
    VND_BYTES(BAsmCode, MaxCodeLen);
    VND(g_listgran, uint);
    VASSUME(g_listgran == 1 || g_listgran == 2);
    VND(CodeLen, int);
    VASSUME(CodeLen >= 0 && (unsigned)CodeLen + n <= MaxCodeLen);
    VND(gk_j, uint);
    VASSUME(gk_j < n);
    VND(gk_q, uint);
    VASSUME(gk_q < MaxCodeLen);
    g_q_val = BAsmCode[gk_q];
    g_o_codelen = CodeLen;
}

#define H_ENTER_INT(name, n, bytej)                                                   \
    void h_##name(void) {                                                             \
        LargeWord v;                                                                  \
        mk_buf(n);                                                                    \
        VASSUME(g_listgran == 1 || (CodeLen & 1) == 0);                               \
        VND(v, u64);                                                                  \
        name(v);                                                                      \
        VPOST(CodeLen == g_o_codelen + (n), "C09: " #name " advances the code length by its size"); \
        VPOST(LOGBYTE(g_o_codelen + gk_j) == (bytej), "C09: " #name " places the value most significant byte first"); \
        VPOST((PHYS(gk_q) >= g_o_codelen && PHYS(gk_q) < g_o_codelen + (n)) || BAsmCode[gk_q] == g_q_val, "C09: " #name " writes nothing else"); \
        VREACH("end");                                                                \
    }
H_ENTER_INT(EnterWord, 2, BEBYTE(v & 0xffff, 2, gk_j))
H_ENTER_INT(EnterLWord, 4, BEBYTE(v & 0xffffffffull, 4, gk_j))
H_ENTER_INT(EnterQWord, 8, BEBYTE(v, 8, gk_j))

#define H_ENTER_FLT(name, n, bytej)                                                   \
    void h_##name(void) {                                                             \
        Word f[8];                                                                    \
        mk_buf(n);                                                                    \
        VASSUME(g_listgran == 1 || (CodeLen & 1) == 0);                               \
        VND_BYTES(f, sizeof(f));                                                      \
        name(f);                                                                      \
        VPOST(CodeLen == g_o_codelen + (n), "C09: " #name " advances the code length by its size"); \
        VPOST(LOGBYTE(g_o_codelen + gk_j) == (bytej), "C09: " #name " places the field most significant word/byte first"); \
        VPOST((PHYS(gk_q) >= g_o_codelen && PHYS(gk_q) < g_o_codelen + (n)) || BAsmCode[gk_q] == g_q_val, "C09: " #name " writes nothing else"); \
        VREACH("end");                                                                \
    }
H_ENTER_FLT(EnterIEEE2, 2, BEBYTE(F2(f), 2, gk_j))
H_ENTER_FLT(EnterIEEE4, 4, BEBYTE(F4(f), 4, gk_j))
H_ENTER_FLT(EnterIEEE8, 8, BEBYTE(F8(f), 8, gk_j))
H_ENTER_FLT(EnterIEEE10, 12, F12BYTE(f, gk_j))

void h_EnterByte(void) {
    LargeWord v;
    mk_buf(1);
    VND(v, u64);
    EnterByte(v);
    VPOST(CodeLen == g_o_codelen + 1, "C09: EnterByte advances the code length by one");
    if (g_listgran == 1 || (g_o_codelen & 1) == 0) {
        VPOST(BAsmCode[g_o_codelen] == (Byte)(v & 0xff) && (gk_q == g_o_codelen || BAsmCode[gk_q] == g_q_val), "C09: EnterByte appends the byte");
        VREACH("plain");
    } else {
        VPOST(LOGBYTE(g_o_codelen) == (Byte)(v & 0xff) && (gk_q != g_o_codelen - 1 || LOGBYTE(g_o_codelen - 1) == g_q_val) &&
              (gk_q == g_o_codelen || gk_q == g_o_codelen - 1 || BAsmCode[gk_q] == g_q_val), "C09: EnterByte completes a word in byte order");
        VREACH("pair");
    }
}

/* ---- DecodeMotoDC (bounded: at most 2 arguments, repetition loops up to 3) --------------- */
static tStrComp dc_args[3];
static char     dc_argtxt[3][2];
static char     dc_lab[2];
void h_DecodeMotoDC(void) {
    int           i, sz;
    unsigned long ec;
    Boolean       pad_expected;
    TTransTable   tt;
    static unsigned char tbl[256];
    /* small initial buffer: every write beyond it has to be preceded by a reservation */
    VND(MaxCodeLen, uint);
    VASSUME(MaxCodeLen >= 2 && MaxCodeLen <= 16 && (MaxCodeLen & 1) == 0);
    BAsmCode = malloc(MaxCodeLen);
    VASSUME(BAsmCode != NULL);
    WAsmCode = (Word*)BAsmCode;
    DAsmCode = (LongWord*)BAsmCode;
    VND(g_listgran, uint);
    VASSUME(g_listgran == 1 || g_listgran == 2);
    CodeLen = 0;
    g_txt_q[0] = '?'; g_txt_q[1] = 0; g_txt_v[0] = 'x'; g_txt_v[1] = 0;
    VND(ArgCnt, int);
    VASSUME(ArgCnt >= 0 && ArgCnt <= 2);
    for (i = 0; i < 3; i++) {
        VND(dc_argtxt[i][0], char);
        dc_argtxt[i][1] = 0;
        dc_args[i].str.p_str = dc_argtxt[i];
        dc_args[i].str.capacity = 2;
    }
    ArgStr = dc_args;
    dc_lab[0] = 0;
    LabPart.str.p_str = dc_lab;
    tt.Table = tbl; tt.Next = NULL; tt.Name = NULL;
    CurrTransTable = &tt;
#ifdef VERIF_OPSIZE
    sz = VERIF_OPSIZE; /* one operand size per obligation group */
#else
    VND(sz, int);
#endif
    VASSUME(sz == eSymbolSize8Bit || sz == eSymbolSize16Bit || sz == eSymbolSize24Bit || sz == eSymbolSize32Bit ||
            sz == eSymbolSize64Bit || sz == eSymbolSizeFloat16Bit || sz == eSymbolSizeFloat32Bit ||
            sz == eSymbolSizeFloat64Bit || sz == eSymbolSizeFloat96Bit);
    g_opsize = sz;
    g_wsize = (sz == eSymbolSize8Bit) ? 1 : (sz == eSymbolSize16Bit || sz == eSymbolSizeFloat16Bit) ? 2 : (sz == eSymbolSize24Bit) ? 3 :
              (sz == eSymbolSize32Bit || sz == eSymbolSizeFloat32Bit) ? 4 : (sz == eSymbolSizeFloat96Bit) ? 12 : 8;
    /* byte-wise entry in word mode needs the pairing of EnterByte; keep CodeLen even per element */
    VND(g_rep, int);
    VND(g_cut_ok, int);
    VND(g_epc, i64);
    VND(DoPadding, uchar);
    VASSUME(DoPadding <= 1);
    DontPrint = False;
    g_pad_calls = 0; g_pad_reserve = 0; g_rc_calls = 0; g_rc_type_ok = 1; g_setmax_calls = 0;
    VND(g_err_cnt, ulong);
    VASSUME(g_err_cnt < 1000000);
    ec = g_err_cnt;
    pad_expected = (Boolean)((g_epc & 1) && DoPadding && sz != eSymbolSize8Bit);
    DecodeMotoDC((tSymbolSize)sz, False);
    VPOST(g_err_cnt == ec || CodeLen == 0, "C09: DC with any error emits nothing");
    VPOST(g_rc_type_ok, "C09: DC range-checks integers against the type of its operand size");
    VPOST(g_pad_calls <= 1 && (g_pad_calls == 0 || pad_expected), "C09: DC pads only at an odd address with PADDING on and a size above 8 bits");
    VPOST(!(g_err_cnt == ec && ArgCnt >= 1 && pad_expected && CodeLen > 0) || g_pad_calls == 1, "C09: DC pads before the first element when required");
    VREACH("end");
}

/* SetRepCodeLen: room for Rep elements of ElemBytes bytes behind the code emitted so far.  For EVERY repeat count and element
 * size: either the request is refused (code overflow), or the buffer really holds CodeLen + Rep * ElemBytes bytes -- the size is
 * never a wrapped-around small number (dc.l [$40000000]1 used to reserve 0 bytes and then write 4 GiB). */
void h_SetRepCodeLen(void) {
    long long rep, elem; int r; unsigned long calls0;
    VND(rep, i64); VND(elem, i64); VASSUME(elem >= 0 && elem <= 0xffffffffLL && rep >= -2147483648LL && rep <= 2147483647LL);
    VND(CodeLen, int); VASSUME(CodeLen >= 0 && CodeLen <= 65535);
    VND(MaxCodeLen, uint); VASSUME(MaxCodeLen >= 1 && MaxCodeLen <= 65535 && (unsigned)CodeLen <= MaxCodeLen);
    BAsmCode = malloc(MaxCodeLen); VASSUME(BAsmCode != NULL);
    g_rep = rep; g_wsize = elem; g_setmax_nobound = 1; g_setmax_calls = 0; calls0 = 0;
    r = SetRepCodeLen(rep, elem);
    if (r == 0) {
        VPOST(rep >= 0 && (long long)CodeLen + rep * elem <= 65535, "C09: a repeat count is accepted only if CodeLen + Rep * size fits the code buffer limit (computed without wrap-around)");
        VPOST((long long)MaxCodeLen >= (long long)CodeLen + rep * elem, "C03: after a successful reservation the buffer holds all Rep * size bytes that will be written");
        VREACH("ok");
    } else {
        VPOST(rep < 0 || (long long)CodeLen + rep * elem > 65535, "C09: a repeat count is refused only if it does not fit");
        VREACH("refused");
    }
}
