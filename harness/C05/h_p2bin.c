/* C05 harness: the real /repo/p2bin.c (ProcessFile, OpenTarget, CloseTarget, MeasureFile) on the
 * ghost file model; the real toolutils.c / as_endian.c / bpemu.c are linked */
#include "verif.h"
#include <stdio.h>
#include <stdlib.h>
#include <string.h>
#include <errno.h>
#include "stubs/gfile.c"
#include "contracts/p2bin.contracts.h"
#include "fileformat.h"
#include "addrspace.h"
#include "nlmessages.h"
#include "toolutils.h"
#include "ioerrs.h"
#include "chunks.h"

long g_src0, g_tgt0, g_cplen, g_src_end, g_tgt_end, g_hdr, g_explen; int g_wmatch;
static int g_exit_code;
#undef errno
#define errno verif_errno
static char msg_txt[2];
char* getmessage(int Num) { (void)Num; return msg_txt; }
char* catgetmessage(PMsgCat Catalog, int Num) { (void)Catalog; (void)Num; return msg_txt; }
char* GetErrorMsg(int number) { (void)number; return msg_txt; }
static int mon_print0(void) { return 0; }
#define fprintf(...) mon_print0()
#define printf(...) mon_print0()
#define fputs(a, b) mon_print0()
static int g_open_which;
static FILE* mon_fopen(void) { return GF_FILE(g_open_which); }
#define fopen(n, m) mon_fopen()
/* -f decision: oracle keyed by what is passed (the CPU id must be passed, see the harness) */
static int g_doit; static int g_filter_arg;
static Boolean verif_FilterOK(Byte Header) { g_filter_arg = Header; return (Boolean)(g_doit != 0); }
#define FilterOK(h) verif_FilterOK(h)
/* chunk bookkeeping (overlap warning): observed */
static unsigned long g_chunk_start, g_chunk_len; static int g_chunk_calls, g_chunk_ret;
static Boolean verif_AddChunk(ChunkList* NChunk, LargeWord NewStart, LargeWord NewLen, Boolean Warn) {
    (void)NChunk; (void)Warn; g_chunk_calls++; g_chunk_start = NewStart; g_chunk_len = NewLen; return (Boolean)(g_chunk_ret != 0);
}
#define AddChunk(a, b, c, d) verif_AddChunk((a), (b), (c), (d))
/* memset on the transfer buffer: observed (uniform-buffer ghost of the file model), the real 4 KiB array is not touched */
static void* mon_memset(void* p, int v, size_t n) { gf_unif_ptr = (unsigned char*)p; gf_unif_val = (unsigned char)v; gf_unif_n = n; return p; }
#define memset(p, v, n) mon_memset((p), (v), (n))
#define main p2bin_main
#include "contracts/loop_defaults.h"
#include "p2bin.c" /* the real /repo/p2bin.c */
#undef main
#undef fopen
#undef FilterOK
#undef AddChunk
#undef memset

static void mk_file(int i) {
    VND(gf[i].len, long); VND(gf[i].pos, long); VND(gf[i].w_off, long); VND(gf[i].w_val, uchar);
    VASSUME(gf[i].len >= 0 && gf[i].len <= 0x7fffffff && gf[i].pos >= 0 && gf[i].pos <= gf[i].len && gf[i].w_off >= 0);
    gf[i].is_open = 1; gf[i].fail_writes = 0; gf[i].n_write_calls = 0; gf[i].n_read_calls = 0; gf[i].bytes_written = 0; gf[i].io_error = 0;
}

/* one data record (byte mode ALL) + end record, arbitrary window / header / offset */
void h_ProcessFile_data(void) {
    Byte cpu, seg, gran; unsigned long start, offs; unsigned len; char name[2]; long tlen0; unsigned char old;
    unsigned long istart, estart, estop; int sel; long hdr;
    gf_reset();
    mk_file(0); mk_file(1);
    gf[0].pos = 0;
    gf_noscript_ptr = Buffer; gf_cell_mode = 1;
    TargFile = GF_FILE(1); g_open_which = 0;
    QuietMode = True; msg_txt[0] = 'm'; msg_txt[1] = 0; name[0] = 'f'; name[1] = 0; g_exit_code = -1;
    VND(cpu, uchar); VND(seg, uchar); VND(gran, uchar); VND(start, ulong); VND(len, uint); VND(offs, ulong);
    VASSUME(start <= 0xffffffffu && len <= 0xffff && offs <= 0xffffffffu);
#ifdef VERIF_GRAN
    gran = VERIF_GRAN;
#endif
    VASSUME(gran == 1 || gran == 2 || gran == 4);            /* granularities the tools define */
    VND(g_doit, int); VND(g_chunk_ret, int);
    VND(StartAdr, uint); VND(StopAdr, uint); VND(StartHeader, schar); VND(ValidSegment, uchar);
    VASSUME(StartAdr <= StopAdr && StartHeader >= -4 && StartHeader <= 4);
    SizeDiv = 1; ANDMask = 0; ANDEq = 0;                      /* -m ALL */
    VND(EntryAdrPresent, uchar); VND(EntryAdr, uint);
    gf_script_i = 0; gf_script[0] = FileMagic; gf_script[1] = FileHeaderDataRec; gf_script[2] = cpu; gf_script[3] = seg; gf_script[4] = gran;
    gf_script[5] = start; gf_script[6] = len; gf_script[7] = FileHeaderEnd; gf_script_n = 8;
    /* record complete in the file */
    VASSUME(12 + (long)len < gf[0].len - 1);
    /* the addresses of the record do not wrap around 2^32 (such records cannot come from the assembler) */
    VASSUME(start + offs <= 0xffffffffu && len / gran >= 1 && start + offs + len / gran - 1 <= 0xffffffffu);
    hdr = StartHeader < 0 ? -StartHeader : StartHeader;
    istart = start + offs;
    estart = istart > StartAdr ? istart : StartAdr;
    estop = (istart + len / gran - 1) < StopAdr ? (istart + len / gran - 1) : StopAdr;
    sel = g_doit && seg == ValidSegment && estop >= estart;
    /* the target is large enough for the window (OpenTarget's job, see h_OpenTarget) */
    VASSUME(gf[1].len >= hdr + ((long)StopAdr - (long)StartAdr + 1) * gran);
    g_src0 = sel ? 12 + (long)(estart - istart) * gran : 12;
    g_tgt0 = sel ? hdr + (long)(estart - StartAdr) * gran : hdr;
    g_cplen = sel ? (long)(estop + 1 - estart) * gran : 0;
    VASSUME(g_cplen <= 0xffff);
    /* witnesses: byte k of the copied part in source and target, or any other target byte */
    { long k; VND(k, long); VASSUME(k >= 0 && k < 0x10000); gf[0].w_off = g_src0 + k; }
    g_src_end = g_src0 + g_cplen; g_tgt_end = g_tgt0 + g_cplen;
    /* lemma (asserted, then assumed): the copied part lies inside the record's payload, hence inside the source file */
    VASSERT(g_src0 >= 12 && g_src_end <= 12 + (long)len, "C05 lemma: the part of a record that falls into the window lies inside its payload");
    VASSUME(g_src0 >= 12 && g_src_end <= 12 + (long)len && g_src_end < gf[0].len);
    g_wmatch = (gf[0].w_off - g_src_end == gf[1].w_off - g_tgt_end);
    tlen0 = gf[1].len; old = gf[1].w_val;
    g_chunk_calls = 0; g_filter_arg = -1;
    ProcessFile(name, offs);
    VPOST(g_filter_arg == cpu, "C05: the -f filter is applied to the record's CPU id");
    VPOST(gf[1].len == tlen0, "C05: copying a record never changes the length of the image");
    if (sel) {
        if (gf[1].w_off >= g_tgt0 && gf[1].w_off < g_tgt0 + g_cplen) {
            if (g_wmatch) { VPOST(gf[1].w_val == gf[0].w_val, "C05: the byte at address A, lane b of a selected record is at offset header + (A-start)*gran + b of the image"); VREACH("copied"); }
        } else { VPOST(gf[1].w_val == old, "C05: bytes outside the record's part of the window are not written"); VREACH("outside"); }
        VPOST(g_chunk_calls == 1 && g_chunk_start == estart && g_chunk_len == estop - estart + 1, "C05: the used-address bookkeeping (overlap warning) sees exactly the placed range");
    } else {
        VPOST(gf[1].w_val == old && gf[1].n_write_calls == 0, "C05: a record that is filtered out, in another segment or outside the window writes nothing");
        VREACH("notselected");
    }
    VPOST(gf[0].pos == 12 + (long)len + 1, "C05: the input is consumed exactly up to the next record");
}

static unsigned long spec_below(unsigned long n, int m);
extern const Byte lane_div[9], lane_mask[9], lane_eq[9];
/* OpenTarget: the image is created with the optional entry-address header (zero for now) followed by exactly
 * (stop - start + 1) * granularity fill bytes (byte mode ALL) */
void h_OpenTarget(void) {
    unsigned gran; unsigned long units;
    gf_reset();
    mk_file(1); gf[1].len = 0; gf[1].pos = 0;                /* fopen(.., "wb") creates / truncates (trusted) */
    gf_cell_mode = 1; gf_noscript_ptr = Buffer; g_open_which = 1; TargFile = NULL;
    QuietMode = True; msg_txt[0] = 'm'; msg_txt[1] = 0;
    VND(StartAdr, uint); VND(StopAdr, uint); VND(StartHeader, schar); VND(FillVal, uchar);
    VASSUME(StartAdr <= StopAdr && StartHeader >= -4 && StartHeader <= 4);
#ifdef VERIF_GRAN
    gran = VERIF_GRAN;
#else
    VND(gran, uint); VASSUME(gran == 1 || gran == 2 || gran == 4);
#endif
    { int m;
#ifdef VERIF_LANE_MODE
      m = VERIF_LANE_MODE;
#else
      m = 0;
#endif
      MaxGran = gran; SizeDiv = lane_div[m]; ANDMask = lane_mask[m]; ANDEq = lane_eq[m];
      units = (unsigned long)StopAdr - StartAdr + 1;
      VASSUME(((unsigned long)StopAdr + 1) * gran <= 0xffffffffu);   /* byte addresses of the window fit 32 bits */
      g_explen = (long)(spec_below(((unsigned long)StopAdr + 1) * gran, m) - spec_below((unsigned long)StartAdr * gran, m)); }
    g_hdr = StartHeader < 0 ? -StartHeader : StartHeader;
    OpenTarget();
    VPOST(TargFile == GF_FILE(1), "C05: the target is opened");
    VPOST(gf[1].len == g_hdr + g_explen, "C05: the image length is header + the number of byte addresses of the window that the lane selection keeps ((stop - start + 1) * granularity in mode ALL)");
    if (gf[1].w_off < g_hdr) { VPOST(gf[1].w_val == 0, "C05: the entry-address header is created as zero bytes"); VREACH("hdr"); }
    else if (gf[1].w_off < gf[1].len) { VPOST(gf[1].w_val == FillVal, "C05: every byte of the fresh image holds the fill value"); VREACH("fill"); }
    VREACH("end");
}

/* MeasureFile: one data record + end record.  The automatic range grows to the lowest / highest address used by the
 * selected records, the granularity of the image is the largest one seen; unselected records change nothing. */
void h_MeasureFile(void) {
    Byte cpu, seg, gran; unsigned long start, offs, a, e; unsigned len; char name[2]; int sel;
    LongWord sa0, so0; Byte mg0;
    gf_reset();
    mk_file(0); gf[0].pos = 0; gf_cell_mode = 1; gf_noscript_ptr = Buffer; g_open_which = 0;
    QuietMode = True; msg_txt[0] = 'm'; msg_txt[1] = 0; name[0] = 'f'; name[1] = 0;
    VND(cpu, uchar); VND(seg, uchar); VND(gran, uchar); VND(start, ulong); VND(len, uint); VND(offs, ulong);
    VASSUME(start <= 0xffffffffu && len <= 0xffff && offs <= 0xffffffffu);
    VASSUME(gran == 1 || gran == 2 || gran == 4);
    VND(g_doit, int);
    VND(StartAdr, uint); VND(StopAdr, uint); VND(StartAuto, uchar); VND(StopAuto, uchar); VND(ValidSegment, uchar); VND(MaxGran, uchar);
    VASSUME(MaxGran == 1 || MaxGran == 2 || MaxGran == 4);
    gf_script_i = 0; gf_script[0] = FileMagic; gf_script[1] = FileHeaderDataRec; gf_script[2] = cpu; gf_script[3] = seg; gf_script[4] = gran;
    gf_script[5] = start; gf_script[6] = len; gf_script[7] = FileHeaderEnd; gf_script_n = 8;
    VASSUME(12 + (long)len < gf[0].len - 1);
    VASSUME(len / gran >= 1 && start + offs + len / gran - 1 <= 0xffffffffu);
    a = start + offs; e = a + len / gran - 1;
    sel = g_doit && seg == ValidSegment;
    sa0 = StartAdr; so0 = StopAdr; mg0 = MaxGran; g_filter_arg = -1;
    MeasureFile(name, offs);
    VPOST(g_filter_arg == cpu, "C05: the -f filter is applied to the record's CPU id (range measurement)");
    if (sel) {
        VPOST(MaxGran == (gran > mg0 ? gran : mg0), "C05: the image granularity is the largest granularity of the selected records");
        VPOST(StartAdr == ((StartAuto && a < sa0) ? a : sa0), "C05: an automatic start address is the lowest address used by the selected records");
        VPOST(StopAdr == ((StopAuto && e > so0) ? e : so0), "C05: an automatic stop address is the highest address used by the selected records");
        VREACH("selected");
    } else {
        VPOST(MaxGran == mg0 && StartAdr == sa0 && StopAdr == so0, "C05: records that are filtered out or in another segment do not influence the range");
        VREACH("notselected");
    }
    VPOST(gf[0].pos == 12 + (long)len + 1, "C05: the input is consumed exactly up to the next record (range measurement)");
}

/* ---- byte-lane selection (-m EVEN/ODD/BYTEn/WORDn) ---------------------------------------------------------
 * spec_below(n) = number of byte addresses x < n that the selection keeps, in closed form per mode (independent
 * of the code's loop); a selected byte at byte address B of the image window starting at byte address S lands at
 * offset header + spec_below(B) - spec_below(S); the image holds spec_below(E) - spec_below(S) bytes. */
const Byte lane_div[9] = {1, 2, 2, 4, 4, 4, 4, 2, 2}, lane_mask[9] = {0, 1, 1, 3, 3, 3, 3, 2, 2}, lane_eq[9] = {0, 0, 1, 0, 1, 2, 3, 0, 2};
static unsigned long spec_below(unsigned long n, int m) {
    unsigned long mask = lane_mask[m], eq = lane_eq[m], r;
    if (mask == 0) return n;
    if (mask == 1) return (n + 1 - eq) >> 1;
    if (mask == 3) return (n + 3 - eq) >> 2;
    r = n & 3; r = (r > eq) ? r - eq : 0; if (r > 2) r = 2;      /* mask 2: two consecutive bytes out of four */
    return 2 * (n >> 2) + r;
}
#ifndef VERIF_LANE_MAXLEN
#define VERIF_LANE_MAXLEN 12
#endif
#ifndef VERIF_GRAN
#define VERIF_GRAN 1
#endif
void h_ProcessFile_lane(void) {
    Byte cpu, seg, gran; unsigned long start, B, S; unsigned len; char name[2]; int m; long hdr, k, tlen0; unsigned char old;
    gf_reset();
    mk_file(0); mk_file(1); gf[0].pos = 0;
    gf_noscript_ptr = Buffer; gf_cell_mode = 0;
    TargFile = GF_FILE(1); g_open_which = 0;
    QuietMode = True; msg_txt[0] = 'm'; msg_txt[1] = 0; name[0] = 'f'; name[1] = 0;
    VND(cpu, uchar); VND(seg, uchar); VND(start, ulong); VND(len, uint);
    gran = VERIF_GRAN;
#ifdef VERIF_LANE_MODE
    m = VERIF_LANE_MODE;                                     /* one obligation group per mode: SizeDiv / mask constant */
#else
    VND(m, int); VASSUME(m >= 1 && m <= 8);
#endif
#ifdef VERIF_EXCLUDE_C05_LANE_UNALIGNED
    /* known finding: records / windows that do not start on a lane boundary */
#endif
    SizeDiv = lane_div[m]; ANDMask = lane_mask[m]; ANDEq = lane_eq[m];
    VASSUME(start <= 0x3fffffffu && len >= gran && len <= VERIF_LANE_MAXLEN && (len % gran) == 0);
    g_doit = 1; g_chunk_ret = 0; ValidSegment = seg;
    VND(StartAdr, uint); VND(StopAdr, uint); VND(StartHeader, schar);
    VASSUME(StartAdr <= StopAdr && StopAdr <= 0x3fffffffu && StartHeader >= -4 && StartHeader <= 4);
    /* the record lies inside the window (clipping is the subject of the ALL-mode harness) */
    VASSUME(StartAdr <= start && start + len / gran - 1 <= StopAdr);
    EntryAdrPresent = False;
    gf_script_i = 0; gf_script[0] = FileMagic; gf_script[1] = FileHeaderDataRec; gf_script[2] = cpu; gf_script[3] = seg; gf_script[4] = gran;
    gf_script[5] = start; gf_script[6] = len; gf_script[7] = FileHeaderEnd; gf_script_n = 8;
    VASSUME(12 + (long)len < gf[0].len - 1);
    hdr = StartHeader < 0 ? -StartHeader : StartHeader;
    S = (unsigned long)StartAdr * gran;
    VASSUME(gf[1].len >= hdr + (long)(spec_below(((unsigned long)StopAdr + 1) * gran, m) - spec_below(S, m)));
    /* witness: byte k of the record, at byte address B */
    VND(k, long); VASSUME(k >= 0 && k < (long)len);
    gf[0].w_off = 12 + k; B = start * gran + (unsigned long)k;
    if ((B & lane_mask[m]) == lane_eq[m]) gf[1].w_off = hdr + (long)(spec_below(B, m) - spec_below(S, m));   /* where the statement puts it */
    tlen0 = gf[1].len; old = gf[1].w_val;
    ProcessFile(name, 0);
    VPOST(gf[1].len == tlen0, "C05: lane selection never changes the length of the image");
    if ((B & lane_mask[m]) == lane_eq[m]) {
        VPOST(gf[1].w_val == gf[0].w_val, "C05: a byte kept by the -m lane selection lands at offset header + (number of kept byte addresses between the window start and its own address)");
        VREACH("kept");
    }
    VPOST(gf[1].bytes_written == spec_below((start + len / gran) * gran, m) - spec_below(start * gran, m), "C05: exactly the bytes on the selected lanes are transferred");
    VREACH("end");
}

/* SelectedCount against its closed-form contract: every start lane, every length, every -m mode */
void h_SelectedCount(void) {
    LongWord st, ln, r; int m;
    VND(m, int); VASSUME(m >= 0 && m <= 8);
#ifdef VERIF_LANE_MODE
    m = VERIF_LANE_MODE;
#endif
    SizeDiv = lane_div[m]; ANDMask = lane_mask[m]; ANDEq = lane_eq[m];
    VND(st, uint); VND(ln, uint); VASSUME(ln <= 0xfffffff8u);
    r = SelectedCount(st, ln);
    VPOST(r == (LongWord)(spec_below((unsigned long)(st & 3) + ln, m) - spec_below(st & 3, m)), "C05: SelectedCount is the number of byte addresses of the range that the lane selection keeps");
    VPOST(P2BIN_MODE_OK && r == (LongWord)(SPEC_BELOW((st & 3) + ln) - SPEC_BELOW(st & 3)), "C05: SelectedCount satisfies the contract by which its callers are verified (ensures clause, literally)");
    VREACH("end");
}
