/* Contracts for /repo/ieeefloat.c (property C09: float data definitions lay down the
 * IEEE-754 encoding, round-to-nearest-even, in the requested byte order).
 *
 * Specification oracle: the C conversions (float)x, (_Float16)x as CBMC defines them
 * (IEEE-754 binary32 / binary16, round to nearest even) and, for the 80-bit extended
 * format, an explicit decode of sign / 15-bit exponent / 64-bit significand.
 * Ghost parameters (set by the harness before the call, tied by `requires`):
 *   g_b64 = bit pattern of the double,  g_b32 = of (float)x,  g_b16 = of (_Float16)x,
 *   g_f16_finite = (_Float16)x is finite,  gk_byte = witness byte index.
 */
#ifndef IEEEFLOAT_CONTRACTS_H
#define IEEEFLOAT_CONTRACTS_H
#include "stdinc.h"
#include "ieeefloat.h"

extern unsigned long long g_b64;
extern unsigned           g_b32;
extern unsigned short     g_b16;
extern int                g_f16_finite, g_isnan, g_isinf;
extern unsigned           gk_byte;

/* byte k (memory order) of an n-byte value v stored big / little endian */
#define BYTE_OF(v, n, k, big) ((unsigned char)(((v) >> (8 * ((big) ? ((n) - 1 - (k)) : (k)))) & 0xff))

/* 80-bit extended: (g_x_exp15, g_x_mant64) is the encoding of the same real number (or
 * Inf/NaN) with explicit integer bit; loop-free definition against the double's fields */
extern unsigned           g_x_exp15;
extern unsigned long long g_x_mant64;
#define D_SIGN(b) ((unsigned)((b) >> 63))
#define D_EXP(b)  ((unsigned)(((b) >> 52) & 0x7ff))
#define D_FRAC(b) ((b) & 0xfffffffffffffull)
#define IS_X80_OF(b, e15, m64)                                                               \
    ((D_EXP(b) == 2047) ? ((e15) == 32767 && (m64) == ((1ull << 63) | (D_FRAC(b) << 11)))    \
     : (D_EXP(b) != 0)  ? ((e15) == D_EXP(b) + 15360 && (m64) == ((1ull << 63) | (D_FRAC(b) << 11))) \
     : (D_FRAC(b) == 0) ? ((e15) == 0 && (m64) == 0)                                         \
     : ((e15) >= 15309 && (e15) <= 15360 && ((m64) >> 63) == 1 &&                            \
        ((m64) >> (63 - ((e15) - 15309))) == D_FRAC(b) &&                                    \
        ((m64) & ((1ull << (63 - ((e15) - 15309))) - 1)) == 0))
/* byte k (0..9, memory order) of the 80-bit number: little endian = mantissa LSB first,
 * then exponent low, then sign|exponent high */
#define X80_LE_BYTE(sign, e15, m64, k) \
    ((unsigned char)(((k) < 8) ? (((m64) >> (8 * (k))) & 0xff) : ((k) == 8) ? ((e15) & 0xff) : (((sign) << 7) | (((e15) >> 8) & 0x7f))))

#ifdef VERIF_CBMC
void Double_2_ieee10(Double inp, Byte* pDest, Boolean NeedsBig)
    __CPROVER_requires(gk_byte < 10)
    __CPROVER_requires(IS_X80_OF(g_b64, g_x_exp15, g_x_mant64))
#ifdef VERIF_EXCLUDE_C09_X80_ZERO_DENORM
    __CPROVER_requires(D_EXP(g_b64) != 0)
#endif
#ifdef VERIF_ONLY_C09_X80_ZERO_DENORM
    __CPROVER_requires(D_EXP(g_b64) == 0)
#endif
    __CPROVER_ensures(pDest[gk_byte] == X80_LE_BYTE(D_SIGN(g_b64), g_x_exp15, g_x_mant64, NeedsBig ? 9 - gk_byte : gk_byte))
    __CPROVER_assigns(__CPROVER_object_upto(pDest, 10));

int as_fpclassify(Double inp)
    __CPROVER_ensures(__CPROVER_return_value ==
        ((D_EXP(g_b64) == 2047) ? (D_FRAC(g_b64) ? AS_FP_NAN : AS_FP_INFINITE) : (D_EXP(g_b64) == 0) ? AS_FP_SUBNORMAL : AS_FP_NORMAL))
    __CPROVER_assigns();

void Double_2_ieee8(Double inp, Byte* pDest, Boolean NeedsBig)
    __CPROVER_requires(gk_byte < 8)
    __CPROVER_ensures(pDest[gk_byte] == BYTE_OF(g_b64, 8, gk_byte, NeedsBig != 0))
    __CPROVER_assigns(__CPROVER_object_upto(pDest, 8));

void Double_2_ieee4(Double inp, Byte* pDest, Boolean NeedsBig)
    __CPROVER_requires(gk_byte < 4)
    __CPROVER_ensures(pDest[gk_byte] == BYTE_OF(g_b32, 4, gk_byte, NeedsBig != 0))
    __CPROVER_assigns(__CPROVER_object_upto(pDest, 4));

/* half precision: accepted iff the value rounds (to nearest even) to a finite binary16
 * number or is Inf/NaN; then the two bytes are that number's encoding; NaN stays NaN
 * (payload free), the sign is kept */
Boolean Double_2_ieee2(Double inp, Byte* pDest, Boolean NeedsBig)
    __CPROVER_requires(gk_byte < 2)
    __CPROVER_ensures((__CPROVER_return_value != 0) == (g_f16_finite || g_isnan || g_isinf))
    __CPROVER_ensures(!(__CPROVER_return_value && !g_isnan) ||
        pDest[gk_byte] == BYTE_OF(g_b16, 2, gk_byte, NeedsBig != 0))
    __CPROVER_ensures(!g_isnan ||
        (__CPROVER_return_value &&
         (pDest[NeedsBig ? 0 : 1] & 0x7c) == 0x7c && ((pDest[NeedsBig ? 0 : 1] & 0x03) | pDest[NeedsBig ? 1 : 0]) != 0 &&
         (pDest[NeedsBig ? 0 : 1] >> 7) == (unsigned)(g_b64 >> 63)))
    __CPROVER_assigns(__CPROVER_object_upto(pDest, 2));
#endif
#endif
