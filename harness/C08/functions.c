/* C08 harness: built-in function bodies of the real /repo/function.c under contract. */
#include "verif.h"
#include "contracts/function.contracts.h"

long long g_x_i;
unsigned  gk_idx;

#include "function.c" /* resolves to /repo/function.c via -I */

static TempResult res, args[3];

static void mk_args(TempType t0) {
    as_tempres_ini(&res);
    as_tempres_ini(&args[0]);
    as_tempres_ini(&args[1]);
    as_tempres_ini(&args[2]);
    args[0].Typ = t0;
    if (t0 == TempFloat) {
        VND(args[0].Contents.Float, double);
    } else if (t0 == TempInt) {
        VND(args[0].Contents.Int, i64);
    }
    VND(g_err_cnt, ulong);
    VASSUME(g_err_cnt < 1000000);
    g_err_last = 0;
}

void h_FuncBITCNT(void) {
    long long in;
    mk_args(TempInt);
    in = args[0].Contents.Int;
    FuncBITCNT(&res, args, 1);
    VPOST(res.Typ == TempInt && res.Contents.Int == __builtin_popcountll(U64(in)), "C08: BITCNT = number of one bits");
    VREACH("end");
}

void h_FuncFIRSTBIT(void) {
    long long in;
    mk_args(TempInt);
    in = args[0].Contents.Int;
    FuncFIRSTBIT(&res, args, 1);
    VPOST(res.Typ == TempInt && SPEC_IS_FIRSTBIT(in, res.Contents.Int), "C08: FIRSTBIT = lowest 1 bit, -1 if none");
    VREACH("end");
}

void h_FuncLASTBIT(void) {
    long long in;
    mk_args(TempInt);
    in = args[0].Contents.Int;
    FuncLASTBIT(&res, args, 1);
    VPOST(res.Typ == TempInt && SPEC_IS_LASTBIT(in, res.Contents.Int), "C08: LASTBIT = highest 1 bit, -1 if none");
    VREACH("end");
}

void h_FuncBITPOS(void) {
    long long     in;
    unsigned long ec;
    mk_args(TempInt);
    in = args[0].Contents.Int;
    ec = g_err_cnt;
    FuncBITPOS(&res, args, 1);
    if (SPEC_ONEBIT(in)) {
        VPOST(res.Typ == TempInt && SPEC_IS_FIRSTBIT(in, res.Contents.Int) && g_err_cnt == ec, "C08: BITPOS = position of the unique 1 bit");
        VREACH("onebit");
    } else {
        VPOST(res.Typ == TempInt && res.Contents.Int == -1 && g_err_cnt == ec + 1, "C08: BITPOS not one bit: -1 and an error");
        VREACH("notonebit");
    }
}

#ifndef VERIF_OPT_FLOAT
void h_FuncABS(void) {
    long long in;
    mk_args(TempInt);
    in = args[0].Contents.Int;
    FuncABS(&res, args, 1);
    VPOST(res.Typ == TempInt && res.Contents.Int == ((in < 0) ? S64(0ull - U64(in)) : in), "C08: ABS integer");
    VREACH("end");
}
void h_FuncSGN(void) {
    long long in;
    mk_args(TempInt);
    in = args[0].Contents.Int;
    FuncSGN(&res, args, 1);
    VPOST(res.Typ == TempInt && res.Contents.Int == ((in < 0) ? -1 : ((in > 0) ? 1 : 0)), "C08: SGN integer");
    VREACH("end");
}
#else
void h_FuncABS_f(void) {
    double in;
    mk_args(TempFloat);
    in = args[0].Contents.Float;
    FuncABS(&res, args, 1);
    VPOST(res.Typ == TempFloat && ((in != in) ? (res.Contents.Float != res.Contents.Float)
                                              : (res.Contents.Float == ((in < 0) ? -in : in) && !__builtin_signbit(res.Contents.Float))),
          "C08: ABS float");
    VREACH("end");
}
void h_FuncSGN_f(void) {
    double in;
    mk_args(TempFloat);
    in = args[0].Contents.Float;
    FuncSGN(&res, args, 1);
    VPOST(res.Typ == TempInt && res.Contents.Int == ((in < 0) ? -1 : ((in > 0) ? 1 : 0)), "C08: SGN float");
    VREACH("end");
}
#endif

void h_FuncTOUPPER(void) {
    long long     in;
    unsigned long ec;
    mk_args(TempInt);
    in = args[0].Contents.Int;
    ec = g_err_cnt;
    FuncTOUPPER(&res, args, 1);
    if (in >= 0 && in <= 255) {
        VPOST(res.Typ == TempInt && res.Contents.Int == SPEC_TOUPPER(in) && g_err_cnt == ec, "C08: TOUPPER");
        VREACH("in");
    } else {
        VPOST(res.Typ == TempNone && g_err_cnt == ec + 1, "C08: TOUPPER outside 0..255 is an error");
        VREACH("out");
    }
}

void h_FuncTOLOWER(void) {
    long long     in;
    unsigned long ec;
    mk_args(TempInt);
    in = args[0].Contents.Int;
    ec = g_err_cnt;
    FuncTOLOWER(&res, args, 1);
    if (in >= 0 && in <= 255) {
        VPOST(res.Typ == TempInt && res.Contents.Int == SPEC_TOLOWER(in) && g_err_cnt == ec, "C08: TOLOWER");
        VREACH("in");
    } else {
        VPOST(res.Typ == TempNone && g_err_cnt == ec + 1, "C08: TOLOWER outside 0..255 is an error");
        VREACH("out");
    }
}

void h_FuncEXPRTYPE(void) {
    int t;
    mk_args(TempNone);
    VND(t, int);
    VASSUME(t == TempInt || t == TempFloat || t == TempString || t == TempReg || t == TempNone);
    args[0].Typ = (TempType)t;
    FuncEXPRTYPE(&res, args, 1);
    VPOST(res.Typ == TempInt && res.Contents.Int == ((t == TempInt) ? 0 : (t == TempFloat) ? 1 : (t == TempString) ? 2 : -1), "C08: EXPRTYPE");
    VREACH("end");
}

/* heap string of symbolic length (the manual limits strings to 255 characters) */
static void mk_str(as_nonz_dynstr_t* s, size_t maxlen) {
    size_t len;
    VND(len, size_t);
    VASSUME(len <= maxlen);
    s->capacity = as_nonz_dynstr_roundup_len(maxlen + 1);
    s->p_str    = malloc(s->capacity);
    VASSUME(s->p_str != NULL);
    VND_BYTES(s->p_str, s->capacity);
    s->len = len;
}

void h_FuncSTRLEN(void) {
    mk_args(TempString);
    mk_str(&args[0].Contents.str, 255);
    FuncSTRLEN(&res, args, 1);
    VPOST(res.Typ == TempInt && res.Contents.Int == (long long)args[0].Contents.str.len, "C08: STRLEN");
    VREACH("end");
}

void h_FuncCHARFROMSTR(void) {
    long long pos;
    mk_args(TempString);
    mk_str(&args[0].Contents.str, 255);
    args[1].Typ = TempInt;
    VND(args[1].Contents.Int, i64);
    pos = args[1].Contents.Int;
    FuncCHARFROMSTR(&res, args, 2);
    if (pos >= 0 && (unsigned long long)pos < args[0].Contents.str.len) {
        VPOST(res.Typ == TempInt && res.Contents.Int == (long long)args[0].Contents.str.p_str[pos], "C08: CHARFROMSTR in range");
        VREACH("in");
    } else {
        VPOST(res.Typ == TempInt && res.Contents.Int == -1, "C08: CHARFROMSTR position outside the string gives -1");
        VREACH("out");
    }
}


/* SUBSTR(s, start, count): manual: "count 0 = up to the end; a start position >= the length gives the empty string; a start
 * position smaller than zero is treated as zero".  Checked for every start/count (64-bit) on strings of up to 12 characters. */
void h_FuncSUBSTR(void) {
    long long start, count, s, n; size_t len, k;
    mk_args(TempString);
    mk_str(&args[0].Contents.str, 12);
    args[1].Typ = TempInt; VND(args[1].Contents.Int, i64); args[2].Typ = TempInt; VND(args[2].Contents.Int, i64);
    start = args[1].Contents.Int; count = args[2].Contents.Int; len = args[0].Contents.str.len;
    VASSUME(count >= 0);                                      /* a negative count is not defined by the manual (memory safety is still checked without this in h_FuncSUBSTR_safe) */
    s = start < 0 ? 0 : start;
    n = (s >= (long long)len) ? 0 : (long long)len - s;
    if (count != 0 && count < n) n = count;
    FuncSUBSTR(&res, args, 3);
    VPOST(res.Typ == TempString && (long long)res.Contents.str.len == n, "C08: SUBSTR extracts count characters from start (0 = to the end; start < 0 counts as 0; start >= length gives the empty string)");
    VND(k, size_t); VASSUME(k < 16 && (long long)k < n);
    VPOST(res.Contents.str.p_str[k] == args[0].Contents.str.p_str[s + (long long)k], "C08: SUBSTR result character k is source character start + k");
    VREACH("end");
}
void h_FuncSUBSTR_safe(void) {
    mk_args(TempString);
    mk_str(&args[0].Contents.str, 12);
    args[1].Typ = TempInt; VND(args[1].Contents.Int, i64); args[2].Typ = TempInt; VND(args[2].Contents.Int, i64);
    FuncSUBSTR(&res, args, 3);                                /* every start / count: no access outside the source string (CBMC pointer checks) */
    VPOST(res.Typ == TempString && res.Contents.str.len <= args[0].Contents.str.len, "C03: SUBSTR never yields more than the source holds, whatever the arguments");
    VREACH("end");
}

/* STRSTR(haystack, needle): position of the first occurrence (0-based), -1 if there is none.  Bounded: haystack <= 6, needle <= 3. */
void h_FuncSTRSTR(void) {
    size_t hl, nl, p, i; long long r; int m;
    mk_args(TempString);
    mk_str(&args[0].Contents.str, 6);
    args[1].Typ = TempString; mk_str(&args[1].Contents.str, 3);
    hl = args[0].Contents.str.len; nl = args[1].Contents.str.len;
    FuncSTRSTR(&res, args, 2);
    VPOST(res.Typ == TempInt && res.Contents.Int >= -1 && (res.Contents.Int == -1 || (unsigned long long)res.Contents.Int + nl <= hl), "C08: STRSTR yields -1 or a position at which the pattern fits");
    r = res.Contents.Int;
    VND(p, size_t); VASSUME(p <= 6 && p + nl <= hl);             /* witness position */
    m = 1; for (i = 0; i < 3; i++) if (i < nl && args[0].Contents.str.p_str[p + i] != args[1].Contents.str.p_str[i]) m = 0;
    if (r >= 0) {
        int mr = 1; for (i = 0; i < 3; i++) if (i < nl && args[0].Contents.str.p_str[r + (long long)i] != args[1].Contents.str.p_str[i]) mr = 0;
        VPOST(mr, "C08: the pattern occurs at the position STRSTR reports");
        VPOST(!((long long)p < r) || !m, "C08: ... and at no earlier position (first occurrence)");
        VREACH("found");
    } else {
        VPOST(!m, "C08: STRSTR reports -1 only if the pattern occurs nowhere");
        VREACH("none");
    }
}
