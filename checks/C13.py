"""C13 -- symbol scoping, mutability, naming (kernel)"""
from vdriver import G
LEVEL = "other"
SRC = "harness/C13/h_asmpars_sym.c"
GROUPS = []
def g(e, fns, **kw):
    GROUPS.append(G("sym_" + e, SRC, "h_" + e, enforce=[], link=["asmdef.c", "tempresult.c", "nonzstring.c", "bpemu.c"] + kw.pop("link_extra", []), stubs=["stubs/gerr.c"],
                    unwind=kw.pop("unwind", 8), timeout=600, dfcc=False, object_bits=12, defs=["-DSTRINGSIZE=64"] + kw.pop("defs_extra", []), functions=fns, **kw))
g("SymbolAdder", ["SymbolAdder", "FreeSymbolEntry"])
g("FindNode", ["FindNode", "FindNode_FNode", "FindNode_FSpec", "GetSymSection", "ChkTmp3"], unwind=12,
  bounded="section nesting depth <= 2, fixed unqualified two-letter name (string helpers run concretely)")
g("LookupSymbol", ["LookupSymbol", "FindNode", "FindLocNode"], unwind=12, bounded="fixed plain name, global scope (the section walk is sym_FindNode)")
g("IdentifySection", ["IdentifySection", "GetSectionName"], unwind=14, replace_calls=["ExpandStrSymbol:verif_ExpandStrSymbol"], link_extra=["strutil.c"], defs_extra=["-DVERIF_LINK_STRUTIL"],
  bounded="section nesting depth <= 5; qualifiers '', PARENT, PARENT0..9, S0..S4 (strings concrete up to one digit)")
g("ExpandStrSymbol", ["ExpandStrSymbol"], unwind=44, unwindset=["@ExpandStrSymbol:ExpandStrSymbol:last:3"], flags=["--slice-formula"], defs_extra=["-DVERIF_EXPAND"], drop_unused=True, replace_calls=["EvalStrStringExpressionWithResult:verif_EvalStrStringExpressionWithResult"],
  bounded="destination buffer of 16 bytes, literal text of 0..24 characters in front of one {expression}")
g("PUSHV_POPV", ["PushSymbol", "PopSymbol"], unwind=18, defs_extra=["-DVERIF_PUSHV"], drop_unused=True, replace_calls=["ExpandStrSymbol:verif_ExpandStrSymbol"],
  bounded="one symbol, the default stack, two nested PUSHV")
g("ChkTmp2", ["ChkTmp2", "AddTmpSymLog"], unwind=50, defs_extra=["-DVERIF_TMPSYM"], drop_unused=True, cflags=["-include", "$VERIF/include/verif_ascii_ctype.h"],
  bounded="names of 0..5 characters over '-', '+', '/', blank and a letter; counters and log arbitrary")
g("ChkTmp13", ["ChkTmp", "ChkTmp1", "ChkTmp3"], unwind=20, defs_extra=["-DVERIF_TMPSYM"], drop_unused=True, cflags=["-include", "$VERIF/include/verif_ascii_ctype.h"],
  bounded="names of 0..4 characters over '$', '.', 'a', 'b'; last non-temporary label of 0..2 characters; SHA-1 replaced by a stand-in that depends on the hashed text only")
for f in ("strmaxprep2", "strmaxprep"):
    GROUPS.append(G("str_" + f, "harness/C13/h_strutil.c", "h_" + f, enforce=[], link=[], stubs=["stubs/gerr.c"], unwind=26, timeout=600, dfcc=False, drop_unused=True, object_bits=12,
                    functions=[f], bounded="destination buffer of 1..8 bytes, prepended string of 0..9 characters"))
GROUPS.append(G("sym_CodePPSyms", "harness/C10/h_asmallg.c", "h_CodePPSyms", enforce=[], link=["asmdef.c", "tempresult.c", "strcomp.c"], stubs=["stubs/gerr.c"], unwind=12, timeout=600,
                dfcc=False, drop_unused=True, object_bits=12, defs=["-DVERIF_PPSYMS"], functions=["CodePPSyms", "CodePPSyms_SearchSym"],
                bounded="argument list of three names (first and third optionally section-qualified), empty FORWARD/PUBLIC/GLOBAL lists"))
TRUSTED_BASE = ["message/file-name stubs", "FreeRelocs stub (no relocations)"]
ASSUMPTIONS = ["integer or float values (string constants compared by as_nonz_dynstr_cmp are not explored)", "JmpErrors <= ErrorCount (established by WrXErrorPos, see C02)"]
NOT_COVERED = ["balanced tree (trees.c)", "GetSymSection qualifier splitting ([..] parsing)", "CodeSECTION / ENDSECTION (section stack construction)", "SHA-1 itself (the $$ suffix is verified to depend on the last non-temporary label only, through a stand-in digest)", "case folding (-U)"]
EXPLANATION = ("Kernel only: SymbolAdder decides constant vs variable vs redefinition and when another pass is requested; the section walk and "
               "temporary-symbol counters follow; the run-level statement (every reference resolves as the manual prescribes) is an induction "
               "over these per-call facts and the unverified tree/section code.")

MANIFEST = dict(
    category="other",
    text="Contracts on the kernel of symbol handling in asmpars.c: SymbolAdder (a constant defined twice is an error and keeps its value; constant "
         "and variable cannot change kind; a variable is replaced; usage carried), FindNode (innermost enclosing section first, then outward to "
         "global, wrong-kind entries do not hide outer ones, FORWARD names stay local in early passes) and LookupSymbol (value, used flag, "
         "forward/questionable flags). Also PushSymbol/PopSymbol (PUSHV/POPV: last in, first out, empty stack is an error), IdentifySection (name[], PARENTn, section names), CodePPSyms (PUBLIC/GLOBAL/FORWARD lists: each argument its own destination section) ExpandStrSymbol (bounded), the nameless temporary symbols (ChkTmp2/AddTmpSymLog: -, --, --- name the three last minus symbols, +, ++, +++ the next plus symbols, / counts as both) and the string helpers that build composed names (strmaxprep/strmaxprep2, bounded). The symbol tree itself is an oracle; "
         "Named ($$x) and composed (.x) temporary symbols (ChkTmp1/ChkTmp3: private to the stretch between two non-temporary labels). [..] splitting and case folding are named unverified.",
    note="Bounded: section nesting depth <= 2, one fixed plain name. Trusted: SearchTree oracle, message stubs, no relocations.",
)
