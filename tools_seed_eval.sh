#!/bin/bash
# tools_seed_eval.sh <seed-id> <worktree> <property> : confirm a seeded change (tests pass with it, demo fails with it / passes
# without it), store it under /verif/seeded/<seed-id>/ and run the property's quick check against the changed tree.
# The check runs on the scratch worktree (VERIF_REPO) with evidence/replay output diverted (VERIF_OUT), so that /repo itself
# and the committed evidence stay untouched; `tools_seed_apply.sh` does the same by git apply on /repo.
set -u
ID=$1; WT=$2; PROP=$3
D=/verif/seeded/$ID
mkdir -p $D
cp -r $WT/_seed/. $D/
cd $WT
echo "== tests with patch (worktree)"; (cmake --build _build 2>&1 | tail -1; ctest --test-dir _build -j16 2>&1 | grep "tests passed\|tests failed")
echo "== demo with patch (expect non-zero)"; (cd $D && bash ./demo.sh $WT/_build >/dev/null 2>&1; echo "rc=$?")
echo "== demo without patch (expect 0)"; (cd $D && bash ./demo.sh /repo/_build >/dev/null 2>&1; echo "rc=$?")
echo "== check $PROP against the change"
O=$(mktemp -d /tmp/seedout_XXXX)
# the change is applied to a scratch worktree at /repo's CURRENT head (fixes made since the seed was written stay in), falling back
# to the agent's own worktree when the patch no longer applies
M=/tmp/mut; T=$WT
if [ -d $M ]; then git -C $M checkout -q . ; git -C $M checkout -q --detach $(git -C /repo rev-parse HEAD) 2>/dev/null; if git -C $M apply $D/patch.diff 2>/dev/null; then T=$M; fi; fi
echo "   (checked tree: $T)"
(cd /verif && VERIF_REPO=$T VERIF_OUT=$O bin/check $PROP 2>&1 | grep -v " ok " | cut -c1-260 | tail -6)
[ -d $M ] && git -C $M checkout -q .
rm -rf $O
