/* Contracts for /repo/asmif.c (property C12; ELSECASE/NULL part also C03).
 *
 * Abstract state: IfAsm ("the current line is assembled"), the frame stack FirstIfSave.
 * Representation invariant used by the run-level induction (DESIGN.md 3/C12):
 *     I  ==  top == NULL  ||  (!top->SaveIfAsm ==> !IfAsm)
 * Specification source: property statement + manual section on conditional assembly:
 * a branch is assembled iff the enclosing level is assembled, no earlier branch of the
 * ladder was taken and its own condition holds; ELSE/ELSECASE iff none was taken.
 *
 * Ghost oracle (what the stubs of the expression evaluator / symbol table return):
 *   g_ev_val, g_ev_ok, g_ev_flags   EvalStrIntExpressionWithFlags
 *   g_defined, g_function, g_macro  IsSymbolDefined / FindFunction / FoundMacroByName
 *   g_used                          IsSymbolUsed
 *   g_found                         FSearch (0 = found)
 */
#ifndef ASMIF_CONTRACTS_H
#define ASMIF_CONTRACTS_H
#include "stdinc.h"
#include "asmdef.h"
#include "asmif.h"
#include "asmpars.h"
#include "stubs/gerr.h"

extern long long g_ev_val;
extern int       g_ev_ok, g_ev_flags;
extern int       g_defined, g_function, g_macro, g_used, g_found;
extern unsigned  gk_arg; /* ghost witness argument index */

/* ghost snapshot of the entry state ("ghost parameters": the harness stores the entry
 * values, every contract requires that the snapshot is accurate; __CPROVER_old() cannot
 * be used for these because it dereferences FirstIfSave, which may be NULL, and only
 * tracks plain lvalues) */
extern PIfSave       g_o_top, g_o_next;
extern int           g_o_ifasm, g_o_state, g_o_cf, g_o_sia, g_o_level;
extern unsigned long g_o_err;
#define SNAPSHOT_OK                                                                    \
    (g_o_top == FirstIfSave && g_o_ifasm == IfAsm && g_o_err == g_err_cnt &&          \
     (FirstIfSave == NULL ||                                                           \
      (g_o_state == (int)FirstIfSave->State && g_o_cf == FirstIfSave->CaseFound &&     \
       g_o_sia == FirstIfSave->SaveIfAsm && g_o_next == FirstIfSave->Next &&           \
       g_o_level == FirstIfSave->NestLevel)))
#define SNAP __CPROVER_requires(SNAPSHOT_OK)

/* effective truth value GetIfVal derives from the evaluator's answer (manual: a
 * condition that cannot be evaluated in the first pass counts as true + error) */
#define COND_UNKNOWN ((g_ev_flags & (eSymbolFlag_FirstPassUnknown | eSymbolFlag_UsesForwards)) != 0)
#define COND_TRUE    (COND_UNKNOWN || !g_ev_ok || ((LongInt)g_ev_val) != 0)

#define TOP FirstIfSave
#define INV_I ((TOP == NULL) || (TOP->SaveIfAsm || !IfAsm))

/* a new frame was pushed on top of old_top, remembering old_ifasm */
#define PUSHED(old_top, old_ifasm, kind)                                                  \
    (TOP != NULL && TOP != (old_top) && TOP->Next == (old_top) &&                        \
     (TOP->SaveIfAsm != 0) == ((old_ifasm) != 0) && TOP->State == (kind) &&             \
     TOP->NestLevel == (((old_top) == NULL) ? 1 : (old_top)->NestLevel + 1))

/* opening statement with condition `cond` (already including the negate flag) */
#define POST_OPEN(old_top, old_ifasm, cond)                                                \
    (PUSHED(old_top, old_ifasm, IfState_IFIF) &&                                         \
     (IfAsm != 0) == ((old_ifasm) && (cond)) &&                                          \
     (!(old_ifasm) || (TOP->CaseFound != 0) == ((cond) != 0)) && INV_I)

#define O_ELSE_OK (g_o_top != NULL && g_o_state == IfState_IFIF)
#define O_ENDIF_OK (g_o_top != NULL && (g_o_state == IfState_IFIF || g_o_state == IfState_IFELSE))
#define O_CASE_STATE_OK (g_o_state == IfState_CASESWITCH || g_o_state == IfState_CASECASE)
#define O_ENDCASE_OK (g_o_top != NULL && (g_o_state == IfState_CASESWITCH || g_o_state == IfState_CASECASE || g_o_state == IfState_CASEELSE))

/* ---- loop contracts for the anchors VERIF_LOOP(asmif_*) in /repo/asmif.c -------------
 * IFB: strlen is observed by a monitor (harness) that counts calls (g_sl_calls), records
 * whether any call returned > 0 (g_sl_nonempty) and knows the witness argument gk_arg. */
extern unsigned g_sl_calls;
extern int      g_sl_nonempty, g_wit_nonempty;
#define VERIF_LOOP_asmif_ifb                                                             \
    __CPROVER_assigns(z, Blank, g_sl_calls, g_sl_nonempty)                               \
    __CPROVER_loop_invariant(1 <= z && z <= ArgCnt + 1)                                  \
    __CPROVER_loop_invariant(g_sl_calls == (unsigned)(z - 1))                            \
    __CPROVER_loop_invariant((Blank != 0) == (g_sl_nonempty == 0))                       \
    __CPROVER_loop_invariant(!(1 <= gk_arg && gk_arg < (unsigned)z && g_wit_nonempty) || !Blank) \
    __CPROVER_decreases(ArgCnt + 1 - z)
/* CASE value loop and RestoreIFs are unwound (bounded groups), no contract text */
#define VERIF_LOOP_asmif_case
#define VERIF_LOOP_asmif_restore

#ifdef VERIF_CBMC
#define OLD_TOP g_o_top
#define OLD_IFASM g_o_ifasm
#define OLD_ERR g_o_err

#define IF_FRAME __CPROVER_assigns(IfAsm, FirstIfSave, ActiveIF, g_err_cnt, g_err_last) \
                 __CPROVER_assigns(__CPROVER_object_whole(ListLine))
#define IF_FRAME_TOP IF_FRAME __CPROVER_assigns(FirstIfSave != NULL : FirstIfSave->CaseFound) \
                     __CPROVER_assigns(FirstIfSave != NULL : FirstIfSave->State)

static Boolean ActiveIF;
static void    PushIF(LongInt IfExpr)
    SNAP
    __CPROVER_requires(TOP == NULL || TOP->NestLevel < 32000)
    __CPROVER_ensures(PUSHED(OLD_TOP, OLD_IFASM, IfState_IFIF))
    __CPROVER_ensures((IfAsm != 0) == (OLD_IFASM && IfExpr != 0))
    __CPROVER_ensures((TOP->CaseFound != 0) == (IfExpr != 0))
    __CPROVER_assigns(IfAsm, FirstIfSave);

static void CodeIF(void)
    SNAP
    __CPROVER_requires(TOP == NULL || TOP->NestLevel < 32000)
    __CPROVER_ensures(POST_OPEN(OLD_TOP, OLD_IFASM, (ArgCnt != 1) || COND_TRUE))
    /* wrong argument count on an assembled line is reported */
    __CPROVER_ensures(!(OLD_IFASM && ArgCnt != 1) || g_err_cnt == OLD_ERR + 1)
    IF_FRAME;

static void CodeIFDEF(Word Negate)
    SNAP
    __CPROVER_requires(TOP == NULL || TOP->NestLevel < 32000)
    __CPROVER_ensures(POST_OPEN(OLD_TOP, OLD_IFASM,
        (ArgCnt != 1) || (((g_defined || g_function || g_macro) != 0) != (Negate != 0))))
    __CPROVER_ensures(!(OLD_IFASM && ArgCnt != 1) || g_err_cnt == OLD_ERR + 1)
    IF_FRAME;

static void CodeIFUSED(Word Negate)
    SNAP
    __CPROVER_requires(TOP == NULL || TOP->NestLevel < 32000)
    __CPROVER_ensures(POST_OPEN(OLD_TOP, OLD_IFASM, (ArgCnt != 1) || ((g_used != 0) != (Negate != 0))))
    __CPROVER_ensures(!(OLD_IFASM && ArgCnt != 1) || g_err_cnt == OLD_ERR + 1)
    IF_FRAME;

/* IFB / IFNB: blank iff every argument 1..ArgCnt is empty.  g_sl_nonempty is set by the
 * strlen monitor iff some visited argument was non-empty; the monitor is called exactly
 * ArgCnt times (once per argument) and the witness argument gk_arg is among them. */
static void CodeIFB(Word Negate)
    SNAP
    __CPROVER_requires(TOP == NULL || TOP->NestLevel < 32000)
    __CPROVER_requires(g_sl_calls == 0 && g_sl_nonempty == 0 && ArgCnt >= 0 && ArgCnt <= ArgCntMax)
    __CPROVER_ensures(POST_OPEN(OLD_TOP, OLD_IFASM, ((g_sl_nonempty == 0) != (Negate != 0))))
    __CPROVER_ensures(!OLD_IFASM || g_sl_calls == (unsigned)ArgCnt)
    __CPROVER_ensures(!(OLD_IFASM && 1 <= gk_arg && gk_arg <= (unsigned)ArgCnt && g_wit_nonempty) || g_sl_nonempty)
    __CPROVER_ensures(g_err_cnt == OLD_ERR)
    IF_FRAME __CPROVER_assigns(g_sl_calls, g_sl_nonempty);

/* ELSEIF cond / ELSE */
static void CodeELSEIF(void)
    SNAP
    /* misplaced: no open IF, already in the ELSE part, or inside a SWITCH: error, nothing changes */
    __CPROVER_ensures(O_ELSE_OK ||
        (g_err_cnt == OLD_ERR + 1 && TOP == OLD_TOP && IfAsm == OLD_IFASM))
    /* ELSE: assembled iff the enclosing level is and no branch was taken so far */
    __CPROVER_ensures(!(O_ELSE_OK && ArgCnt == 0) ||
        (TOP == OLD_TOP && TOP->State == IfState_IFELSE &&
         (IfAsm != 0) == (TOP->SaveIfAsm && !g_o_cf) && INV_I))
    /* ELSEIF cond: assembled iff enclosing is, none taken so far, and cond holds; taken is sticky */
    __CPROVER_ensures(!(O_ELSE_OK && ArgCnt == 1) ||
        (TOP == OLD_TOP && TOP->State == IfState_IFIF &&
         (IfAsm != 0) == (TOP->SaveIfAsm && !g_o_cf && COND_TRUE) &&
         (!g_o_cf || TOP->CaseFound) && (!IfAsm || TOP->CaseFound) && INV_I))
    __CPROVER_ensures(!(O_ELSE_OK && ArgCnt > 1) ||
        (g_err_cnt == OLD_ERR + 1 && TOP == OLD_TOP && IfAsm == OLD_IFASM))
    IF_FRAME_TOP;

static void CodeENDIF(void)
    SNAP
    __CPROVER_requires(TOP == NULL || TOP->SaveExpr.Typ != TempString)
    __CPROVER_ensures(!(ArgCnt == 0 && O_ENDIF_OK) ||
        (TOP == g_o_next && (IfAsm != 0) == (g_o_sia != 0) && g_err_cnt == OLD_ERR))
    __CPROVER_ensures((ArgCnt == 0 && O_ENDIF_OK) ||
        (g_err_cnt == OLD_ERR + 1 && TOP == OLD_TOP && IfAsm == OLD_IFASM))
    IF_FRAME __CPROVER_assigns(FirstIfSave != NULL : FirstIfSave->SaveExpr.Typ) __CPROVER_frees(FirstIfSave);

static void CodeELSECASE(void)
    SNAP
    /* no open construct, or not inside SWITCH before ELSECASE: an error, never a crash */
    __CPROVER_ensures(!(ArgCnt == 0 && (OLD_TOP == NULL || !O_CASE_STATE_OK)) || g_err_cnt >= OLD_ERR + 1)
    __CPROVER_ensures(!(ArgCnt == 0 && OLD_TOP == NULL) || (TOP == NULL && IfAsm == OLD_IFASM))
    __CPROVER_ensures(!(ArgCnt == 0 && OLD_TOP != NULL && O_CASE_STATE_OK) ||
        (TOP == OLD_TOP && (IfAsm != 0) == (TOP->SaveIfAsm && !g_o_cf) &&
         TOP->CaseFound && TOP->State == IfState_CASEELSE && g_err_cnt == OLD_ERR && INV_I))
    __CPROVER_ensures(ArgCnt == 0 || (g_err_cnt == OLD_ERR + 1 && TOP == OLD_TOP && IfAsm == OLD_IFASM))
    IF_FRAME_TOP;

static void CodeENDCASE(void)
    SNAP
    __CPROVER_requires(TOP == NULL || TOP->SaveExpr.Typ != TempString)
    __CPROVER_ensures(!(ArgCnt == 0 && O_ENDCASE_OK) ||
        (TOP == g_o_next && (IfAsm != 0) == (g_o_sia != 0)))
    __CPROVER_ensures((ArgCnt == 0 && O_ENDCASE_OK) ||
        (g_err_cnt == OLD_ERR + 1 && TOP == OLD_TOP && IfAsm == OLD_IFASM))
    IF_FRAME __CPROVER_assigns(FirstIfSave != NULL : FirstIfSave->SaveExpr.Typ) __CPROVER_frees(FirstIfSave);

/* SWITCH: pushes a frame that remembers the selector; nothing is "found" yet; the
 * enclosing activity is unchanged until the first CASE */
extern int       g_sel_typ;   /* oracle: type/value EvalStrExpression returns for the selector / CASE values */
extern long long g_sel_int;
extern double    g_sel_flt;
extern int       g_sel_flags;
extern int       g_case_hit, g_case_evals;
static void CodeSWITCH(void)
    SNAP
    __CPROVER_requires(TOP == NULL || TOP->NestLevel < 32000)
    __CPROVER_ensures(PUSHED(OLD_TOP, OLD_IFASM, IfState_CASESWITCH) && !TOP->CaseFound && IfAsm == OLD_IFASM)
    /* selector stored: the evaluated value, or integer 1 if it cannot be evaluated / line inactive */
    __CPROVER_ensures(!(OLD_IFASM && ArgCnt == 1 && g_sel_typ == TempInt && !(g_sel_flags & eSymbolFlag_FirstPassUnknown)) ||
        (TOP->SaveExpr.Typ == TempInt && TOP->SaveExpr.Contents.Int == g_sel_int))
    __CPROVER_ensures(!(OLD_IFASM && ArgCnt == 1 && g_sel_typ == TempFloat && g_sel_flt == g_sel_flt && !(g_sel_flags & eSymbolFlag_FirstPassUnknown)) ||
        (TOP->SaveExpr.Typ == TempFloat && TOP->SaveExpr.Contents.Float == g_sel_flt))
    __CPROVER_ensures(!(OLD_IFASM && ArgCnt != 1) || g_err_cnt == OLD_ERR + 1)
    IF_FRAME __CPROVER_assigns(g_case_hit, g_case_evals);

/* CASE v1,..,vn (bounded group: n <= 3, values integer or float).  g_case_hit is set by
 * the evaluator oracle iff one of the values it returned equals the selector in type
 * and value (specification-side comparison). */
static void CodeCASE(void)
    SNAP
    __CPROVER_requires(g_case_hit == 0 && g_case_evals == 0)
    __CPROVER_requires(TOP == NULL || TOP->SaveExpr.Typ == TempInt || TOP->SaveExpr.Typ == TempFloat)
    __CPROVER_ensures(!(OLD_TOP == NULL) || (g_err_cnt == OLD_ERR + 1 && TOP == NULL && IfAsm == OLD_IFASM))
    __CPROVER_ensures(!(OLD_TOP != NULL && ArgCnt >= 1 && !O_CASE_STATE_OK) ||
        (g_err_cnt == OLD_ERR + 1 && TOP == OLD_TOP && IfAsm == OLD_IFASM && (int)TOP->State == g_o_state))
    __CPROVER_ensures(!(OLD_TOP != NULL && ArgCnt >= 1 && O_CASE_STATE_OK) ||
        (TOP == OLD_TOP && TOP->State == IfState_CASECASE &&
         (IfAsm != 0) == (g_o_sia && !g_o_cf && g_case_hit) &&
         (!g_o_cf || TOP->CaseFound) && (!IfAsm || TOP->CaseFound) &&
         (!(g_o_sia && !g_o_cf) || (TOP->CaseFound != 0) == (g_case_hit != 0)) && INV_I))
    IF_FRAME_TOP __CPROVER_assigns(g_case_hit, g_case_evals);

/* RestoreIFs(Level): pops down to the frame whose NestLevel is Level (bounded: depth <= 2) */
void RestoreIFs(Integer Level)
    SNAP
    __CPROVER_requires(TOP == NULL || TOP->SaveExpr.Typ != TempString)
    __CPROVER_requires(TOP == NULL || TOP->Next == NULL || TOP->Next->SaveExpr.Typ != TempString)
    __CPROVER_ensures(TOP == NULL || TOP->NestLevel == Level)
    __CPROVER_ensures(!(OLD_TOP != NULL && g_o_level == Level) || (TOP == OLD_TOP && IfAsm == OLD_IFASM))
    __CPROVER_assigns(IfAsm, FirstIfSave)
    __CPROVER_assigns(FirstIfSave != NULL : FirstIfSave->SaveExpr.Typ)
    __CPROVER_assigns(FirstIfSave != NULL && FirstIfSave->Next != NULL : FirstIfSave->Next->SaveExpr.Typ)
    __CPROVER_frees(FirstIfSave)
    __CPROVER_frees(FirstIfSave != NULL : FirstIfSave->Next);

Integer SaveIFs(void)
    __CPROVER_ensures(__CPROVER_return_value == ((TOP == NULL) ? 0 : TOP->NestLevel))
    __CPROVER_assigns();

#endif
#endif
