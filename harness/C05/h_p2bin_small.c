/* C05 bounded harness: CloseTarget of the real /repo/p2bin.c on small files with every byte modelled
 * (entry-address header, -s checksum).  Bounded stand-in: image of at most GS_MAX bytes. */
#include "verif.h"
#include <stdio.h>
#include <stdlib.h>
#include <string.h>
#include <errno.h>
#include "stubs/gfile_small.c"
#include "fileformat.h"
#include "addrspace.h"
#include "nlmessages.h"
#include "toolutils.h"
#include "ioerrs.h"
#include "chunks.h"
#undef errno
#define errno verif_errno
static char msg_txt[2];
char* getmessage(int Num) { (void)Num; return msg_txt; }
char* catgetmessage(PMsgCat Catalog, int Num) { (void)Catalog; (void)Num; return msg_txt; }
char* GetErrorMsg(int number) { (void)number; return msg_txt; }
static int mon_print0(void) { return 0; }
#define fprintf(...) mon_print0()
#define printf(...) mon_print0()
#define fputs(a, b) mon_print0()
static int g_open_which;
static FILE* mon_fopen(void) { gs[g_open_which].pos = 0; gs[g_open_which].is_open = 1; return GS_FILE(g_open_which); }
#define fopen(n, m) mon_fopen()
#define main p2bin_main
#include "contracts/loop_defaults.h"
#include "p2bin.c" /* the real /repo/p2bin.c */
#undef main
#undef fopen

void h_CloseTarget(void) {
    unsigned char before[GS_MAX]; long len, hdr, i; unsigned sum = 0; int same = 1, hdr_ok = 1;
    msg_txt[0] = 'm'; msg_txt[1] = 0; QuietMode = True; verif_errno = 0;
    VND(StartHeader, schar); VASSUME(StartHeader >= -4 && StartHeader <= 4);
    hdr = StartHeader < 0 ? -StartHeader : StartHeader;
    VND(len, long); VASSUME(len >= hdr + 1 && len <= GS_MAX);       /* header + at least one image byte */
    for (i = 0; i < GS_MAX; i++) { VND(gs[1].data[i], uchar); before[i] = gs[1].data[i]; }
    gs[1].len = len; VND(gs[1].pos, long); VASSUME(gs[1].pos >= 0 && gs[1].pos <= len); gs[1].is_open = 1; gs[1].fail = 0;
    TargFile = GS_FILE(1); g_open_which = 1;
    VND(EntryAdrPresent, uchar); VND(EntryAdr, uint); VND(DoCheckSum, uchar);
    CloseTarget();
    VPOST(gs[1].len == len, "C05: closing the image does not change its length");
    /* entry-address header: |S| bytes, least significant byte first for S > 0, most significant first for S < 0 */
    for (i = 0; i < 4; i++) if (i < hdr) {
        unsigned char want = (EntryAdrPresent && hdr) ? (unsigned char)(EntryAdr >> (8 * (StartHeader > 0 ? i : hdr - 1 - i))) : before[i];
        if (gs[1].data[i] != want) hdr_ok = 0;
    }
    VPOST(hdr_ok, "C05: the header holds the entry address in the requested byte order and width (untouched without an entry address)");
    for (i = 0; i < GS_MAX; i++) if (i >= hdr && i < len) { sum += gs[1].data[i]; if (i < len - 1 && gs[1].data[i] != before[i]) same = 0; }
    if (DoCheckSum) {
        VPOST((sum & 0xff) == 0, "C05: with -s the bytes of the image (after the header) sum to zero");
        VPOST(same, "C05: -s changes only the last byte of the image");
        VREACH("sum");
    } else {
        VPOST(same && gs[1].data[len - 1] == before[len - 1], "C05: without -s the image is left as written");
        VREACH("nosum");
    }
    VPOST(!gs[1].is_open, "C05: the image is closed");
}
