/* C04 harness: the code-file writer of the real /repo/asmcode.c on the ghost file model */
#include "verif.h"
#include <stdio.h>
#include <stdlib.h>
#include <string.h>
#include <errno.h>
#include "stubs/gfile.c"
#include "contracts/asmcode.contracts.h"
#include "asmsub.h"
#include "asmerr.h"
#include "strutil.h"
#include "version.h"

long     g_o_lensofar, g_o_fill, g_o_recpos, g_o_lenpos, g_o_flen;
unsigned g_src, g_w_old, g_gran, gk_j;
int      g_exit_code;
static unsigned long long g_pc;
#undef errno
#define errno verif_errno

Word      Granularity(void) { return (Word)g_gran; }
LargeWord ProgCounter(void) { return (LargeWord)g_pc; }
void      ChkIO(tErrorNum ErrNo) { (void)ErrNo; if (verif_errno != 0) { g_exit_code = 2; VASSUME(0); } }
void      ChkXIO(tErrorNum ErrNo, char* pExtError) { (void)pExtError; ChkIO(ErrNo); }
static FILE* mon_fopen(void) { gf[1].pos = 0; gf[1].len = 0; gf[1].is_open = 1; return GF_FILE(1); }
#define fopen(n, m) mon_fopen()
/* creator string "AS <version>/<arch>-<os>": 12 characters here (the real one is longer) */
#define CREATOR "AS 1.42/a-li"
static int mon_snprintf_creator(char* d, size_t n) { if (n >= 13) { d[0]='A'; d[1]='S'; d[2]=' '; d[3]='1'; d[4]='.'; d[5]='4'; d[6]='2'; d[7]='/'; d[8]='a'; d[9]='-'; d[10]='l'; d[11]='i'; d[12]=0; } return 12; }
#define as_snprintf(d, n, ...) mon_snprintf_creator((d), (n))

/* memcpy monitor: CBMC's model of a symbolic-length memcpy (VLA + array_replace) produced
 * 16 M variables even for 16-byte lines.  The monitor checks the ranges, checks that the
 * watched earlier payload byte is not overwritten, and transfers the witness byte gk_mc. */
static unsigned       gk_mc;
static long           g_watch_off = -1; /* file offset of a watched earlier payload byte, -1 = none */
#ifdef VERIF_NATIVE
#define __CPROVER_w_ok(p, n) 1
#define __CPROVER_r_ok(p, n) 1
#endif
#define MC1(k) if ((k) < n) ((unsigned char*)d)[k] = ((const unsigned char*)s)[k]
static void* verif_memcpy(void* d, const void* s, size_t n) {
    if (n <= 8) { /* field-sized copies (endian helpers): exact */
        MC1(0); MC1(1); MC1(2); MC1(3); MC1(4); MC1(5); MC1(6); MC1(7);
        return d;
    }
    VASSERT(n == 0 || (__CPROVER_w_ok(d, n) && __CPROVER_r_ok(s, n)), "C03: WriteBytes copies inside both buffers");
    /* the watched byte is still in the buffer iff its offset is at or beyond the file's end */
    VASSERT(g_watch_off < 0 || g_watch_off < gf[1].len ||
            !(&CodeBuffer[g_watch_off - gf[1].len] >= (unsigned char*)d && &CodeBuffer[g_watch_off - gf[1].len] < (unsigned char*)d + n),
            "C04: buffering a line does not overwrite an earlier payload byte that is still in the buffer");
    if (gk_mc < n) ((unsigned char*)d)[gk_mc] = ((const unsigned char*)s)[gk_mc];
    return d;
}
#define memcpy(d, s, n) verif_memcpy((d), (s), (n))
#include "asmcode.c" /* the real /repo/asmcode.c */
#undef memcpy
#undef as_snprintf
#undef fopen

/* arbitrary writer state satisfying the representation invariant */
static void mk_writer(void) {
    gf_reset();
    VND(gf[1].len, long); VND(gf[1].w_off, long); VND(gf[1].w_val, uchar);
    gf[1].is_open = 1; gf[1].fail_writes = 0; gf[1].n_write_calls = 0; gf[1].n_read_calls = 0; gf[1].bytes_written = 0; gf[1].io_error = 0;
    PrgFile = GF_FILE(1);
    CodeBuffer = malloc(CodeBufferSize + 1);
    VASSUME(CodeBuffer != NULL);
    VND(LenSoFar, ushort); VND(CodeBufferFill, ushort); VND(RecPos, int); VND(ThisRel, uchar);
    LenPos = RecPos + 8;
    VASSUME(RecPos >= 2 && RecPos <= 0x60000000);
    VASSUME(CodeBufferFill < 512 && CodeBufferFill <= LenSoFar);
    VASSUME(gf[1].len == (long)LenPos + 2 + ((long)LenSoFar - (long)CodeBufferFill));
    gf[1].pos = gf[1].len;
    VASSUME(gf[1].w_off >= 0);
    PatchList = PatchLast = NULL; ExportList = ExportLast = NULL;
#ifdef VERIF_GRAN
    g_gran = VERIF_GRAN; /* one granularity per obligation group (avoids a symbolic product) */
#else
    VND(g_gran, uint);
#endif
    VASSUME(g_gran == 1 || g_gran == 2 || g_gran == 4);
    VND(g_pc, u64);
    VND(ActPC, uchar); VASSUME(ActPC < SegCountPlusStruct);
    VND(HeaderID, uchar); VND(RelSegs, uchar); VASSUME(RelSegs <= 1);
    { int i; for (i = 0; i < SegCountPlusStruct; i++) VND(Grans[i], ushort); }
    verif_errno = 0; g_exit_code = -1;
    VND(g_err_cnt, ulong); VASSUME(g_err_cnt < 1000000);
    g_o_lensofar = LenSoFar; g_o_fill = CodeBufferFill; g_o_recpos = RecPos; g_o_lenpos = LenPos; g_o_flen = gf[1].len;
}
static void mk_code(void) {
    /* the line's code buffer is exactly as large as the line's code (the tightest buffer the
     * caller may provide: any read beyond the code is out of bounds) */
    VND(CodeLen, int);
    VASSUME(CodeLen >= 0 && (long)CodeLen * g_gran <= 65535);
#ifdef VERIF_MAXLINE
    VASSUME((long)CodeLen * g_gran <= VERIF_MAXLINE);
#endif
    MaxCodeLen = (LongWord)CodeLen * g_gran;
    if (MaxCodeLen < 4) MaxCodeLen = 4;
#ifdef X_FIXBUF
    BAsmCode = malloc(16);
#else
    BAsmCode = malloc(MaxCodeLen);
#endif
    VASSUME(BAsmCode != NULL);
    WAsmCode = (Word*)BAsmCode; DAsmCode = (LongWord*)BAsmCode;
    TurnWords = False;
    ActListGran = 1;
}
/* logical byte at absolute file offset off (file or still in the buffer) */
#define LBYTE(off) (((off) < gf[1].len) ? gf[1].w_val : CodeBuffer[(off) - gf[1].len])

/* WriteBytes, the line fits into the open record: witness = byte j of the line's code */
void h_WriteBytes_fit_new(void) {
    long n, off; unsigned char src;
    mk_writer(); mk_code();
    n = (long)CodeLen * g_gran;
    VASSUME((long)LenSoFar + n <= 0xffff);
    VND(gk_j, uint);
    VASSUME((long)gk_j < n);
    src = BAsmCode[gk_j];
    off = (long)LenPos + 2 + (long)LenSoFar + gk_j; /* where payload byte LenSoFar+j belongs */
    gf[1].w_off = off;
    gk_mc = gk_j; g_watch_off = -1;
    WriteBytes();
    VPOST(WR_INV, "C04: WriteBytes keeps the writer invariant (buffer below 512, lengths and file position consistent)");
    VPOST(LenSoFar == g_o_lensofar + n && RecPos == g_o_recpos && LenPos == g_o_lenpos, "C04: the open record grows by the line's byte count");
    VPOST(LBYTE(off) == src, "C04: byte j of the line is payload byte LenSoFar+j of the record");
    VPOST(BAsmCode[gk_j] == src, "C04: WriteBytes leaves the line's code buffer as it was");
    VREACH("end");
}
/* ... and an earlier payload byte q is untouched */
void h_WriteBytes_fit_old(void) {
    long n, off, q; unsigned char old;
    mk_writer(); mk_code();
    n = (long)CodeLen * g_gran;
    VASSUME((long)LenSoFar + n <= 0xffff);
    VND(q, long);
    VASSUME(q >= 0 && q < (long)LenSoFar);
    off = (long)LenPos + 2 + q;
    gf[1].w_off = off;
    old = LBYTE(off);
    gk_mc = 0x7fffffff; /* no byte of this line is the witness */
    g_watch_off = off;
    WriteBytes();
    VPOST(LBYTE(off) == old, "C04: WriteBytes changes no earlier payload byte");
    VREACH("end");
}
/* file header part before the payload is untouched as well */
void h_WriteBytes_fit_hdr(void) {
    long n; unsigned char old;
    mk_writer(); mk_code();
    n = (long)CodeLen * g_gran;
    VASSUME((long)LenSoFar + n <= 0xffff);
    VASSUME(gf[1].w_off < (long)LenPos + 2);
    old = gf[1].w_val;
    gk_mc = 0x7fffffff; g_watch_off = -1;
    WriteBytes();
    VPOST(gf[1].w_val == old, "C04: WriteBytes does not touch headers or earlier records");
    VREACH("end");
}

/* expected byte k (0..9) of a record header written for start address a */
#define HDRBYTE(k, a) ((unsigned char)((k) == 0 ? (RelSegs ? FileHeaderRelocRec : FileHeaderDataRec) : (k) == 1 ? HeaderID : (k) == 2 ? ActPC : \
                       (k) == 3 ? (Byte)Grans[ActPC] : (k) < 8 ? (unsigned char)((a) >> (8 * ((k) - 4))) : 0))

/* NewRecord on an empty open record: the header is rewritten in place (no empty record is left) */
void h_NewRecord_empty(void) {
    unsigned long a; unsigned char old; long w;
    mk_writer();
    VASSUME(LenSoFar == 0);
    VND(a, ulong);
    w = gf[1].w_off; old = gf[1].w_val;
    VASSUME(w < gf[1].len);
    gk_mc = 0x7fffffff; g_watch_off = -1;
    NewRecord(a);
    VPOST(WR_INV && LenSoFar == 0 && RecPos == g_o_recpos, "C04: NewRecord on an empty record reuses its place");
    if (w >= g_o_recpos) { VPOST(gf[1].w_val == HDRBYTE(w - g_o_recpos, (unsigned)a), "C04: record header = type, CPU id, segment, granularity, start address, length 0"); VREACH("hdr"); }
    else { VPOST(gf[1].w_val == old, "C04: NewRecord leaves earlier records alone"); VREACH("before"); }
}

/* NewRecord on a record with payload: its length is patched in, a new header follows at the end */
void h_NewRecord_full(void) {
    unsigned long a; unsigned char old; long w, end0;
    mk_writer();
    VASSUME(LenSoFar > 0);
    VND(a, ulong);
    w = gf[1].w_off;
    end0 = (long)LenPos + 2 + (long)LenSoFar; /* logical end of the file incl. buffered bytes */
    VASSUME(w < end0 + 10);
    old = (w < end0) ? LBYTE(w) : 0;
    gk_mc = 0x7fffffff; g_watch_off = -1;
    NewRecord(a);
    VPOST(WR_INV && LenSoFar == 0 && RecPos == end0 && CodeBufferFill == 0, "C04: NewRecord closes the record and opens a new one at the end of the file");
    if (w >= end0) { VPOST(gf[1].w_val == HDRBYTE(w - end0, (unsigned)a), "C04: new record header = type, CPU id, segment, granularity, start address, length 0"); VREACH("newhdr"); }
    else if (w == g_o_lenpos || w == g_o_lenpos + 1) { VPOST(gf[1].w_val == (unsigned char)(g_o_lensofar >> (8 * (w - g_o_lenpos))), "C04: the closed record's length field holds its payload length"); VREACH("len"); }
    else { VPOST(gf[1].w_val == old, "C04: closing a record changes neither its payload nor earlier records"); VREACH("old"); }
}

/* WriteBytes when the line does not fit into the 64 KiB record any more */
void h_WriteBytes_overflow(void) {
    long n, end0, w; unsigned char src = 0, old = 0;
    mk_writer(); mk_code();
    n = (long)CodeLen * g_gran;
    VASSUME(n > 0 && (long)LenSoFar + n > 0xffff);
    end0 = (long)LenPos + 2 + (long)LenSoFar;
    VND(gk_j, uint);
    VASSUME((long)gk_j < n);
    w = gf[1].w_off;
    VASSUME(w < end0 + 10 + n);
    if (w >= end0 + 10) { gk_j = (unsigned)(w - end0 - 10); src = BAsmCode[gk_j]; gk_mc = gk_j; } else gk_mc = 0x7fffffff;
    if (w < end0) old = LBYTE(w);
    g_watch_off = -1;
    WriteBytes();
    VPOST(WR_INV && RecPos == end0 && LenSoFar == n, "C04: a line that would exceed 65535 payload bytes starts a new record");
    if (w >= end0 + 10) { VPOST(LBYTE(w) == src, "C04: the new record's payload is the line's code"); VREACH("payload"); }
    else if (w >= end0) { if (w - end0 < 8) { VPOST(LBYTE(w) == HDRBYTE(w - end0, (unsigned)g_pc), "C04: the new record starts at the line's address"); } VREACH("newhdr"); }
    else if (w == g_o_lenpos || w == g_o_lenpos + 1) { VPOST(gf[1].w_val == (unsigned char)(g_o_lensofar >> (8 * (w - g_o_lenpos))), "C04: the full record's length field holds its payload length"); VREACH("len"); }
    else { VPOST(LBYTE(w) == old, "C04: earlier payload is untouched"); VREACH("old"); }
}

void h_OpenFile(void) {
    long w;
    mk_writer();
    w = gf[1].w_off;
    VASSUME(w < 12);
    OpenFile();
    VPOST(WR_INV && RecPos == 2 && LenSoFar == 0 && CodeBufferFill == 0 && gf[1].len == 12, "C04: a new code file is the magic plus one empty record header");
    VPOST(w >= 2 || gf[1].w_val == (unsigned char)(FileMagic >> (8 * w)), "C04: the file starts with the magic $1489 (low byte first)");
    VPOST(w < 2 || gf[1].w_val == HDRBYTE(w - 2, (unsigned)g_pc), "C04: the first record header describes the current segment and address");
    VREACH("end");
}

void h_CloseFile(void) {
    long w, end0, base; unsigned char old = 0;
    mk_writer();
    VND(StartAdrPresent, uchar); VASSUME(StartAdrPresent <= 1);
    VND(StartAdr, u64);
    end0 = (LenSoFar == 0) ? (long)RecPos : (long)LenPos + 2 + (long)LenSoFar;
    w = gf[1].w_off;
    if (w < end0 && !(w >= RecPos && LenSoFar == 0)) old = LBYTE(w);
    gk_mc = 0x7fffffff; g_watch_off = -1;
    CloseFile();
    base = end0;
    VPOST(gf[1].len == base + (StartAdrPresent ? 5 : 0) + 1 + 12 || gf[1].len == base + 10, "C04: the file ends with optional entry record, end marker and creator string");
    VPOST(!gf[1].is_open, "C04: the code file is closed");
    if (w >= base) {
        long k = w - base;
        if (StartAdrPresent) {
            VPOST(k != 0 || gf[1].w_val == FileHeaderStartAdr, "C04: entry record marker");
            VPOST(!(k >= 1 && k < 5) || gf[1].w_val == (unsigned char)(StartAdr >> (8 * (k - 1))), "C04: entry address");
            VPOST(k != 5 || gf[1].w_val == FileHeaderEnd, "C04: end marker after the entry record");
            VPOST(!(k >= 6 && k < 18) || gf[1].w_val == (unsigned char)CREATOR[k - 6], "C04: creator string");
        } else {
            VPOST(k != 0 || gf[1].w_val == FileHeaderEnd, "C04: end marker");
            VPOST(!(k >= 1 && k < 13) || gf[1].w_val == (unsigned char)CREATOR[k - 1], "C04: creator string");
        }
        VREACH("tail");
    } else if (g_o_lensofar > 0 && (w == g_o_lenpos || w == g_o_lenpos + 1)) {
        VPOST(gf[1].w_val == (unsigned char)(g_o_lensofar >> (8 * (w - g_o_lenpos))), "C04: the last record's length field holds its payload length");
        VREACH("len");
    } else if (w < end0 && !(w >= g_o_recpos && g_o_lensofar == 0)) {
        VPOST(gf[1].w_val == old, "C04: closing the file changes no payload byte");
        VREACH("old");
    }
}

/* DreheCodes (TurnWords targets: the bytes of every listing word are reversed before the line is written, and turned
 * back afterwards): byte j of the buffer ends up at j ^ (word size - 1), every byte exactly once; applying it twice
 * restores the buffer.  Bounded: lines of at most 16 bytes (each word is handled on its own). */
void h_DreheCodes(void) {
    unsigned lg, j; unsigned char src, other; int n;
    VND(lg, uint); VASSUME(lg == 1 || lg == 2 || lg == 4);
    g_gran = 1; VND(n, int); VASSUME(n >= 0 && n <= 16 && (n % (int)lg) == 0);
    CodeLen = n; ActPC = SegCode; { int i; for (i = 0; i < SegCountPlusStruct; i++) Grans[i] = 1; }
    MaxCodeLen = 16; BAsmCode = malloc(16); VASSUME(BAsmCode != NULL); WAsmCode = (Word*)BAsmCode; DAsmCode = (LongWord*)BAsmCode;
    VND_BYTES(BAsmCode, 16);
    ActListGran = (ShortInt)lg;
    VND(j, uint); VASSUME(j < 16 && (int)j < n);
    src = BAsmCode[j]; other = BAsmCode[j ^ (lg - 1)];
    DreheCodes();
    VPOST(BAsmCode[j ^ (lg - 1)] == src && BAsmCode[j] == other, "C04: turning reverses the bytes inside every listing word (byte j <-> byte j ^ (word size - 1))");
    DreheCodes();
    VPOST(BAsmCode[j] == src, "C04: turning twice restores the line's code (WriteBytes turns back after writing)");
    VREACH("end");
}

/* DreheCodes for every line length (loop contracts asmcode_turn2/4): a line of CodeLen units of 1, 2 or 4 bytes,
 * CodeLen up to the largest line the assembler accepts (MaxCodeLen_Max = 65535 units) */
unsigned gk_t, g_t_old, gk_b, g_b_old;
void h_DreheCodes_any(void) {
    unsigned lg, gran, n, whole, j; unsigned char src, other; unsigned cl;
    VND(lg, uint); VASSUME(lg == 1 || lg == 2 || lg == 4);
    VND(gran, uint); VASSUME(gran == 1 || gran == 2 || gran == 4);
    g_gran = gran; VND(cl, uint); VASSUME(cl <= 65535);
    CodeLen = cl; n = cl * gran; whole = n - (n % lg);
    ActPC = SegCode; { int i; for (i = 0; i < SegCountPlusStruct; i++) Grans[i] = 1; }
    MaxCodeLen = n; BAsmCode = malloc(n); VASSUME(BAsmCode != NULL); WAsmCode = (Word*)BAsmCode; DAsmCode = (LongWord*)BAsmCode;
    ActListGran = (ShortInt)lg;
    VND(j, uint); VASSUME(j < n);
    src = BAsmCode[j];
    gk_t = j / lg; g_t_old = 0;
    if (j < whole) {
        other = BAsmCode[j ^ (lg - 1)];
        if (lg == 2) g_t_old = WAsmCode[gk_t]; else if (lg == 4) g_t_old = DAsmCode[gk_t];
    } else other = src;
    gk_b = j; g_b_old = src;
    DreheCodes();
    if (j < whole) {
        VPOST(BAsmCode[j ^ (lg - 1)] == src && BAsmCode[j] == other, "C04: turning reverses the bytes inside every listing word of the line, whatever its length (byte j <-> byte j ^ (word size - 1))");
        VREACH("turned");
        if (n > 40000 && lg == 2) VREACH("long line");
    } else {
        VPOST(BAsmCode[j] == src, "C04: bytes behind the last whole listing word stay");
        VREACH("tail");
    }
}
