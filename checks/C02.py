"""C02 -- exit status, code file and reported errors agree (asmerr.c, as.c)"""
from vdriver import G
LEVEL = "proof"
SRC = "harness/C02/h_asmerr.c"
GROUPS = []
GROUPS.append(G("err_WrErrorString", SRC, "h_WrErrorString", enforce=["WrErrorString"], link=["asmdef.c"], unwind=12, timeout=600, defs=["-DSTRINGSIZE=64"],
                note="compiled with -DSTRINGSIZE=64 (datatypes.h makes the buffer size a build parameter); message text is abstracted"))
GROUPS.append(G("err_WrXErrorPos", SRC, "h_WrXErrorPos", enforce=[], replace=["WrErrorString"], link=["asmdef.c"], unwind=12, timeout=600,
                defs=["-DSTRINGSIZE=64"], functions=["WrXErrorPos", "FindAndTakeExpectError"],
                bounded="EXPECT list of at most 3 announced numbers (list walk unwound); WrErrorString replaced by its contract"))
for f in ["CodeEXPECT", "CodeENDEXPECT", "AsmErrPassInit", "AsmErrPassExit"]:
    GROUPS.append(G("err_" + f, SRC, "h_" + f, enforce=[], replace=["WrErrorString"], link=["asmdef.c"], unwind=12, timeout=600,
                    defs=["-DSTRINGSIZE=64"], functions=[f],
                    bounded="at most 3 announced numbers / 3 EXPECT arguments (loops unwound); WrErrorString replaced by its contract"))
GROUPS.append(G("usr_user_diagnostics", "harness/C10/h_asmallg.c", "h_user_diagnostics", enforce=[], link=["asmdef.c", "tempresult.c"], stubs=["stubs/gerr.c"], unwind=8, timeout=600, dfcc=False, drop_unused=True,
                object_bits=12, defs=["-DVERIF_USERMSG"], functions=["CodeWARNING", "CodeERROR", "CodeFATAL", "CodeMESSAGE"]))
GROUPS.append(G("as_AssembleFile", "harness/C02/h_as.c", "h_AssembleFile", enforce=[],
                replace=["AssembleFile_InitPass", "AssembleFile_ExitPass", "ProcessFile", "AssembleFile_WrSummary"],
                link=["asmdef.c"], loops=True, unwind=12, timeout=900, defs=["-DSTRINGSIZE=64"], functions=["AssembleFile"], object_bits=12,
                note="pass loop closed by loop contract as_passloop; InitPass/ProcessFile/ExitPass = havoc with frame (ErrorCount, WarnCount, Repass); functions of other translation units = generated bodies returning arbitrary values (they are assumed not to report errors themselves: ChkIO/ChkXIO inside AssembleFile are unmodelled)"))
TRUSTED_BASE = ["ghost output channels (WrLstLine / error file fprintf / WrConsoleLine count lines)", "exit() monitor", "string helpers replaced by bounded-write stubs",
                "message catalogue returns some NUL-terminated string of <= 3 characters"]
ASSUMPTIONS = ["fewer than 2^32 - 1 diagnostics per pass (counters are 32 bit after fix)"]
NOT_COVERED = ["main (option parsing; the final `return GlobErrFlag ? 2 : 0`)", "ChkIO/ChkXIO error reports inside AssembleFile (assumed silent)"]
EXPLANATION = ""

MANIFEST = dict(
    category="proof",
    text="WrErrorString (every reported diagnostic moves exactly one 32-bit counter by one, warning vs error per -Werror, text reaches a channel, "
         "fatal / error limit end the run with status 3 after removing the code file) and AssembleFile (pass loop closed by a loop contract; "
         "after the last pass the code file is left iff the error counter is 0, the run is marked failed iff it is not, the summary prints the two "
         "counters) are verified on the real asmerr.c / as.c; every pass's work is havoc-with-frame over ErrorCount, WarnCount, Repass.",
    note="Bounded (not counted): EXPECT list <= 3 entries in WrXErrorPos/CodeEXPECT/CodeENDEXPECT/AsmErrPass*. Assumed: < 2^32-1 diagnostics and "
         "< 2^31-1 passes; functions of other translation units called by AssembleFile report no error themselves (generated stubs); "
         "message text abstracted (STRINGSIZE=64 build parameter); main's final return is not under contract.",
)
