/* C20 harness: line counting across INCLUDE in the real /repo/as.c:
 * ExpandINCLUDE_Core (enter a file) -> INCLUDE_Processor (one line) -> INCLUDE_Restorer (back in the includer).
 * Diagnostics name CurrFileName and CurrLine; inside the included file they count from 1, and after it the
 * includer continues with the line numbering it had at the INCLUDE statement. */
#include "verif.h"
#include <stdio.h>
#include <string.h>
#include "stdinc.h"
#include "asmdef.h"
#include "asmsub.h"
#include "asmmac.h"
#include "dynstr.h"
#include "strutil.h"
#include "stubs/gerr.h"
#include "asmfnums.h"
#include "asminclist.h"
#include "asmif.h"
#include "stringlists.h"

static int g_addfile, g_pushinc, g_eof, g_cnt, g_io_calls;
static char g_found[4];
void    AddFile(char* FName) { (void)FName; g_addfile++; }
void    PushInclude(char* S) { (void)S; g_pushinc++; }
void    ChkStrIO(tErrorNum ErrNo, const struct sStrComp* pComp) { (void)ErrNo; (void)pComp; g_io_calls++; }
Integer SaveIFs(void) { return 3; }
void    InitStringList(StringList* List) { *List = NULL; }
size_t  ReadLnCont(FILE* Datei, struct as_dynstr* p_line) { (void)Datei; (void)p_line; return (size_t)g_cnt; }  /* number of physical lines consumed */
size_t  strmaxcpy(char* dest, char const* src, size_t Max) { /* faithful for the short names used here */
    size_t n = 0;
    if (!Max) return 0;
    while (n < 3 && src[n] && n + 1 < Max) { dest[n] = src[n]; n++; }
    dest[n] = 0;
    return n;
}
/* file search (asmallg.c): oracle, the name found is "i" */
void INCLUDE_SearchCore(tStrComp* pDest, tStrComp const* pArg, Boolean SearchPath) { (void)pArg; (void)SearchPath; pDest->str.p_str[0] = 'i'; pDest->str.p_str[1] = 0; }
static FILE* mon_fopen(void) { static int f; return (FILE*)&f; }
static int   mon0(void) { return 0; }
static int   g_eof_k, g_eof_seq[2];
static int   mon_feof(void) { int k = g_eof_k++; return (k >= 0 && k < 2) ? g_eof_seq[k] : g_eof; }
#define fopen(n, m) mon_fopen()
#define setvbuf(a, b, c, d) mon0()
#define feof(f) mon_feof()
#define printf(...) mon0()
#define fprintf(...) mon0()
#define main as_main
#include "contracts/loop_defaults.h"
#include "as.c" /* the real /repo/as.c */
#undef main

void h_INCLUDE_lines(void) {
    static tStrComp arg; static char argtxt[2]; static char cur[STRINGSIZE]; as_dynstr_t dst; static char dstbuf[4];
    LongInt line0, inc0; PInputTag old, t; Boolean r; int depth0; char c0, c1;
    argtxt[0] = 'i'; argtxt[1] = 0; arg.str.p_str = argtxt; arg.str.capacity = 2;
    cur[0] = 'm'; cur[1] = 0; CurrFileName = cur;
    VND(MomLineCounter, int); VASSUME(MomLineCounter >= 0 && MomLineCounter < 100000000);
    VND(CurrLine, int); VASSUME(CurrLine >= 0 && CurrLine <= MomLineCounter);   /* inside REPT/IRP bodies CurrLine lags behind */
    VND(CurrIncludeLevel, int); VASSUME(CurrIncludeLevel >= 0 && CurrIncludeLevel < 1000); VND(MaxIncludeLevel, int);
    VND(IncDepth, int); VASSUME(IncDepth >= 0 && IncDepth < 1000);
    FirstInputTag = NULL; old = FirstInputTag;
    line0 = MomLineCounter; inc0 = CurrIncludeLevel; depth0 = IncDepth;
    g_addfile = g_pushinc = g_io_calls = 0;
    ExpandINCLUDE_Core(&arg, True);
    t = FirstInputTag;
    VPOST(t != NULL && t != old && t->Next == old && t->Processor == INCLUDE_Processor && t->Restorer == INCLUDE_Restorer && t->GetPos == INCLUDE_GetPos,
          "C20: INCLUDE pushes one input level that reads, restores and reports as an include file");
    VPOST(MomLineCounter == 0 && t->LineZ == 0, "C20: line counting starts afresh inside the included file");
    VPOST(t->First, "C11: a fresh input level has not opened a local symbol space yet");
    VPOST(CurrFileName[0] == 'i' && CurrFileName[1] == 0, "C20: diagnostics inside the included file name that file");
    VPOST(g_addfile == 1 && g_pushinc == 1 && CurrIncludeLevel == inc0 + 1, "C20: the file is registered once");
    /* a few lines of the included file */
    dst.p_str = dstbuf; dst.capacity = 4; dst.dynamic = 0;
    VND(g_cnt, int); VASSUME(g_cnt >= 1 && g_cnt <= 1000); g_eof = 0; g_eof_k = 0; g_eof_seq[0] = g_eof_seq[1] = 0;
    r = INCLUDE_Processor(t, &dst);
    VPOST(CurrLine == g_cnt && MomLineCounter == g_cnt && t->LineZ == g_cnt, "C20: the current line inside the include file is the number of physical lines read so far");
    { int c2 = g_cnt; VND(g_cnt, int); VASSUME(g_cnt >= 1 && g_cnt <= 1000); g_eof_k = 0; VND(g_eof_seq[0], int); VND(g_eof_seq[1], int);
      r = INCLUDE_Processor(t, &dst);
      VPOST(CurrLine == c2 + (g_eof_seq[0] ? 1 : g_cnt) && t->LineZ == CurrLine && MomLineCounter == CurrLine, "C20: ... accumulated over lines (continuation lines count)");
      VPOST((r != 0) == (g_eof_seq[1] == 0), "C20: the include file ends at end of file"); }
    /* back in the includer */
    INCLUDE_Restorer(t);
    c0 = CurrFileName[0]; c1 = CurrFileName[1];
    VPOST(MomLineCounter == line0, "C20: after the include file the includer continues with the line count it had at the INCLUDE statement");
    VPOST(c0 == 'm' && c1 == 0, "C20: ... and diagnostics name the including file again");
    VPOST(IncDepth == depth0 - 1, "C20: the include nesting shown in the listing goes back by one");
    VREACH("end");
}

/* GenerateProcessor: every new input level (macro call, REPT/IRP/IRPC/WHILE body, include) starts from the line of the
 * statement that opens it -- CurrLine, which inside a replayed loop body differs from the file's line counter (that one
 * already stands behind the loop).  The processors add the body line to StartLine (h_REPT_step / h_IRP_step), so
 * diagnostics, listing and MAP entries of a macro called inside a loop body name the calling line. */
void h_GenerateProcessor(void) {
    PInputTag t;
    VND(MomLineCounter, int); VASSUME(MomLineCounter >= 0 && MomLineCounter < 100000000);
    VND(CurrLine, int); VASSUME(CurrLine >= 0 && CurrLine <= MomLineCounter);
    VND(CurrIncludeLevel, int); FirstInputTag = NULL;
    t = GenerateProcessor();
    VPOST(t != NULL && t->StartLine == CurrLine, "C20: a new input level starts from the line of the statement that opens it (CurrLine), not from the file's read position");
    VPOST(t->First && t->LineZ == 1 && !t->IsEmpty && t->Next == NULL, "C11: a fresh input level is at its first body line and has not opened a local symbol space");
    VPOST(t->IncludeLevel == CurrIncludeLevel && t->IfLevel == 3, "C12: the level remembers the conditional nesting it was opened at");
    VREACH("end");
}

/* ---- C03 / C11: IRPN group size.  The count argument of IRPN must be positive: a count <= 0 is reported and the
 * construct is skipped (a negative count made the parameter window step backwards: the assembler never terminated). */
static long long g_cnt_val; static int g_cnt_ok; static unsigned g_cnt_flags;
LargeInt EvalStrIntExpressionWithFlags(tStrComp const* pExpr, IntType Type, Boolean* pResult, tSymbolFlags* pFlags) {
    (void)pExpr; (void)Type; *pResult = (Boolean)(g_cnt_ok != 0); *pFlags = (tSymbolFlags)g_cnt_flags; return g_cnt_val;
}
void h_IRPN_count(void) {
    static tExpandIRPNContext ctx; static tStrComp arg; static char txt[2]; unsigned long ec;
    txt[0] = 'n'; txt[1] = 0; arg.str.p_str = txt; arg.str.capacity = 2;
    memset(&ctx, 0, sizeof(ctx)); ctx.ArgCnt = 0; ctx.ErrFlag = False;
    VND(g_cnt_val, i64); VASSUME(g_cnt_val >= -2147483648LL && g_cnt_val <= 2147483647LL); VND(g_cnt_ok, int); VND(g_cnt_flags, uint);
    VND(g_err_cnt, ulong); VASSUME(g_err_cnt < 1000000); ec = g_err_cnt;
    ProcessIRPNArgs(False, &arg, &ctx);
    if (g_cnt_ok && !(g_cnt_flags & eSymbolFlag_FirstPassUnknown) && g_cnt_val >= 1) {
        VPOST(!ctx.ErrFlag && ctx.ParamCnt == g_cnt_val && g_err_cnt == ec && ctx.ArgCnt == 1, "C11: a positive IRPN group size is taken as it is");
        VREACH("ok");
    } else {
        VPOST(ctx.ErrFlag, "C03: an IRPN group size that is not a known positive number rejects the construct (it is never used as a step width)");
        VPOST(!g_cnt_ok || g_err_cnt == ec + 1, "C03: ... with a diagnostic");
        VREACH("rejected");
    }
}
