"""C08 -- expressions evaluate to their documented value (operator.c, function.c, asmpars.c kernels)"""
from vdriver import G

LEVEL = "proof"
OPS = "harness/C08/operators.c"
LINK = ["tempresult.c"]
STUBS = ["stubs/gerr.c"]

GROUPS = []

def op(name, entry=None, defs=None, fn=None, **kw):
    GROUPS.append(G("op_" + (entry or name), OPS, "h_" + (entry or name), enforce=[fn or name], link=LINK,
                    stubs=STUBS, defs=defs or [], replace=["MergeRelocs"] if (fn or name) == "AddOp" else None, timeout=kw.pop("timeout", 120), **kw))

for o in ["OneComplOp", "ShLeftOp", "ShRightOp", "BitMirrorOp", "BinAndOp", "BinOrOp", "BinXorOp",
          "ModOp", "LogNotOp", "LogAndOp", "LogOrOp", "LogXorOp",
          "MultOp", "SubOp", "AddOp", "DivOp", "EqOp", "UneqOp", "GtOp", "LtOp", "GeOp", "LeOp"]:
    op(o, unwind=34 if o=="BitMirrorOp" else None, flags=["--signed-overflow-check"] if o in ("DivOp","ModOp") else None)
for o in ["MultOp", "SubOp", "AddOp", "DivOp", "EqOp", "UneqOp", "GtOp", "LtOp", "GeOp", "LeOp"]:
    op(o, entry=o + "_f", defs=["-DVERIF_OPT_FLOAT"], fn=o)

GROUPS.append(G("op_table", OPS, "h_OperatorTable", enforce=[], link=LINK, stubs=STUBS, unwind=32, timeout=300, dfcc=False, functions=["Operators[]"]))
GROUPS.append(G("op_PotOp_int", OPS, "h_PotOp_int", enforce=[], link=LINK, stubs=STUBS, unwind=6, timeout=300, dfcc=False, functions=["PotOp"], solver="kissat",
                bounded="exponent <= 2 (two 64-bit multiplier equivalences already exceed 300 s on every installed SAT back end)"))
GROUPS.append(G("op_PotOp_f", OPS, "h_PotOp_f", enforce=[], link=LINK, stubs=STUBS, defs=["-DVERIF_OPT_FLOAT"], unwind=6, timeout=300, dfcc=False, functions=["PotOp"], solver="kissat",
                bounded="negative base, exponent 1.0 (the accumulated product is returned, not the squared base)"))
GROUPS.append(G("op_PotOp_f2", OPS, "h_PotOp_f", enforce=[], link=LINK, stubs=STUBS, defs=["-DVERIF_OPT_FLOAT", "-DVERIF_POT_EXP2"], unwind=6, timeout=1500, dfcc=False, functions=["PotOp"], solver="kissat", tier="off", note="not decided within 1500 s on any installed back end (one double-precision multiplier equivalence); kept for --only runs",
                bounded="negative base, exponent 2.0 (one FP multiplier equivalence)"))
FUNCS = "harness/C08/functions.c"
def fn(name, entry=None, defs=None, unwind=None, link=None, **kw):
    GROUPS.append(G("fn_" + (entry or name), FUNCS, "h_" + (entry or name), enforce=[name],
                    link=link or ["tempresult.c", "bpemu.c"], stubs=STUBS, defs=defs or [], unwind=unwind,
                    timeout=kw.pop("timeout", 120), **kw))
fn("FuncBITCNT", unwind=66)
fn("FuncFIRSTBIT", unwind=66)
fn("FuncLASTBIT", unwind=66)
fn("FuncABS"); fn("FuncSGN")
fn("FuncABS", entry="FuncABS_f", defs=["-DVERIF_OPT_FLOAT"]); fn("FuncSGN", entry="FuncSGN_f", defs=["-DVERIF_OPT_FLOAT"])
fn("FuncTOUPPER"); fn("FuncTOLOWER"); fn("FuncEXPRTYPE")
fn("FuncSTRLEN", link=["tempresult.c", "bpemu.c", "nonzstring.c"])
fn("FuncCHARFROMSTR", link=["tempresult.c", "bpemu.c", "nonzstring.c"], unwind=12)
for e in ("FuncSUBSTR", "FuncSUBSTR_safe"):
    GROUPS.append(G("fn_" + e, FUNCS, "h_" + e, enforce=[], link=["tempresult.c", "bpemu.c", "nonzstring.c"], stubs=STUBS, unwind=14, timeout=600, dfcc=False, drop_unused=True,
                    functions=["FuncSUBSTR"], object_bits=12, bounded="source strings of at most 12 characters; start and count over the full 64-bit range"))
GROUPS.append(G("fn_FuncSTRSTR", FUNCS, "h_FuncSTRSTR", enforce=[], link=["tempresult.c", "bpemu.c", "nonzstring.c"], stubs=STUBS, unwind=10, timeout=600, dfcc=False, drop_unused=True,
                functions=["FuncSTRSTR", "as_nonz_dynstr_find"], object_bits=12, bounded="text of at most 6 and pattern of at most 3 characters"))
fn("FuncBITPOS", replace=["SingleBit"])
GROUPS.append(G("pars_SingleBit", "harness/C08/asmpars_kernels.c", "h_SingleBit", enforce=["SingleBit"],
                link=["bpemu.c"], stubs=STUBS, unwind=66, timeout=300))

# witness of the recorded finding C08_SHR_NEG (expected to fail while it is open)
GROUPS.append(G("op_ShRightOp:finding", OPS, "h_ShRightOp", enforce=["ShRightOp"], link=LINK, stubs=STUBS,
                only_finding="C08_SHR_NEG", timeout=120))

for e in ("ModifyIntConstModeByMask", "SetIntConstRelaxedMode", "SetIntConstMode"):
    GROUPS.append(G("int_" + e, "harness/C08/h_intformat.c", "h_" + e, enforce=[], link=[], stubs=STUBS, unwind=20, timeout=600, dfcc=False, drop_unused=True, object_bits=12,
                    functions=[e, "SetIntConstModeByMask"], flags=["--slice-formula"]))
TRUSTED_BASE = [
    "stubs/gerr.c: WrError/WrXError/WrStrErrorPos only count (ghost g_err_cnt, g_err_last)",
    "libm pow() replaced by a ghost stub that records its arguments",
    "CBMC's IEEE-754 double semantics (round to nearest even) for the float operators",
]
ASSUMPTIONS = [
    "operands arrive with the types the operator table admits (type dispatch of EvalStrExpression is a separate obligation)",
    "malloc never fails",
]
NOT_COVERED = ["EvalStrExpression as a whole (parser)", "transcendental function accuracy"]
EXPLANATION = ""

MANIFEST = dict(
    category="proof",
    text="Every operator body of operator.c is verified against a contract transcribed from the manual's operator table "
         "(result type and value over the full 64-bit / IEEE double domain, error and no value where the manual says undefined, "
         "flag promotion, frame = *pErg only) by CBMC function contracts (goto-instrument --dfcc --enforce-contract) on the real "
         "translation unit; unbounded in the operand values. The operator table is compared with the manual's table (ranks, arity, operand types); the built-in functions (bit/char/abs/sgn, STRLEN, CHARFROMSTR, SUBSTR, STRSTR, FIRSTBIT/LASTBIT/BITPOS) are under contract, the string ones bounded in the string length. Which integer notations are active (intformat.c: INTSYNTAX, RELAXED, CPU switch) is under harness obligations: active iff native, or relaxed and of another family, in the priority order of the master table. Expression parsing (precedence as executed) and the digit conversion of number literals are not part of the proof.",
    note="Trusted: ghost stubs for WrError (count only) and libm pow; CBMC's bit-precise C and IEEE semantics; type dispatch in "
         "EvalStrExpression (operands arrive with table-admitted types). Known finding C08_SHR_NEG (>> arithmetic for negative left operand).",
)
