"""C11 -- macro / repetition constructs are transparent (kernel: stepping of REPT and IRP bodies)"""
from vdriver import G
LEVEL = "other"
SRC = "harness/C11/h_as_rept.c"
GROUPS = []
for e in ["REPT_step", "IRP_step"]:
    GROUPS.append(G("rep_" + e, SRC, "h_" + e, enforce=[], link=["asmdef.c"], stubs=["stubs/gerr.c"], unwind=8, timeout=600, dfcc=False,
                    object_bits=12, defs=["-DSTRINGSIZE=64"], functions=["REPT_Processor", "REPT_GetPos"] if e.startswith("REPT") else ["IRP_Processor", "IRP_GetPos"],
                    bounded="body of at most 3 lines, at most 4 IRP parameters, IRPN group size <= 2 (list walks unwound); iteration counts unbounded"))
GROUPS.append(G("rep_IRP_Cleanup_twice", SRC, "h_IRP_Cleanup_twice", enforce=[], link=["asmdef.c"], stubs=["stubs/gerr.c"], unwind=8, timeout=600, dfcc=False,
                object_bits=12, defs=["-DSTRINGSIZE=64"], functions=["IRP_Cleanup"], bounded="parameter list of 4 entries (list walk unwound)"))
GROUPS.append(G("rep_MACRO_local_balance", SRC, "h_MACRO_local_balance", enforce=[], link=["asmdef.c"], stubs=["stubs/gerr.c"], unwind=8, timeout=600, dfcc=False,
                object_bits=12, defs=["-DSTRINGSIZE=64"], functions=["MACRO_Processor", "MACRO_Restorer"], bounded="body of at most 3 lines (list walk unwound)"))
GROUPS.append(G("rep_IRPN_count", "harness/C20/h_as_include.c", "h_IRPN_count", enforce=[], link=["asmdef.c", "strcomp.c"], stubs=["stubs/gerr.c"], unwind=8, timeout=600, dfcc=False,
                object_bits=12, defs=["-DSTRINGSIZE=64"], functions=["ProcessIRPNArgs"]))
GROUPS.append(G("rep_ExpandSHIFT", SRC, "h_ExpandSHIFT", enforce=[], link=["asmdef.c"], stubs=["stubs/gerr.c"], unwind=8, timeout=600, dfcc=False,
                object_bits=12, defs=["-DSTRINGSIZE=64"], functions=["ExpandSHIFT"], replace_calls=["ComputeMacroStrings:verif_ComputeMacroStrings"],
                bounded="SHIFT directly in the macro body or one REPT/IRP level deep"))
MAC = dict(src="harness/C11/h_as_macro.c", enforce=[], link=["asmdef.c", "strcomp.c", "stringlists.c"], stubs=["stubs/gerr.c"], unwind=14, timeout=900, dfcc=False,
           drop_unused=True, object_bits=12, flags=["--slice-formula"])
GROUPS.append(G("mac_ComputeMacroStrings", entry="h_ComputeMacroStrings", defs=["-DSTRINGSIZE=64", "-DVERIF_PC=0", "-DVERIF_NARGS=0"], functions=["ComputeMacroStrings"],
                bounded="at most 3 remaining arguments of at most 2 characters", **MAC))
for pc in (0, 1, 2):
    for na in (0, 1, 2, 3):
        GROUPS.append(G("mac_ExpandMacro_p%d_a%d" % (pc, na), entry="h_ExpandMacro", defs=["-DSTRINGSIZE=64", "-DVERIF_PC=%d" % pc, "-DVERIF_NARGS=%d" % na],
                        functions=["ExpandMacro", "GenerateProcessor"],
                        bounded="%d formal parameter(s) (P, Q; arbitrary one-character defaults), %d argument(s) of at most 3 characters over { P Q = x }" % (pc, na), **MAC))
for e in ("IsValidParameterName", "SetToken"):
    GROUPS.append(G("sub_" + e, "harness/C19/h_asmsub.c", "h_" + e, enforce=[], link=[], stubs=["stubs/gerr.c"], unwind=4, timeout=300,
                    dfcc=False, object_bits=12, functions=[e, "CompressLine_NErl"] if e == "IsValidParameterName" else [e]))
GROUPS.append(G("sub_ChkNames", "harness/C19/h_asmsub.c", "h_ChkNames", enforce=[], link=[], stubs=["stubs/gerr.c"], unwind=6, timeout=300, dfcc=False, object_bits=12,
                functions=["ChkSymbName", "ChkMacSymbName", "ChkNameUpTo", "ChkSymbNameUpTo", "ChkMacSymbNameUpTo"], bounded="names of 0..3 characters (8-bit character classes; the UTF-8 branch is not explored)"))
GROUPS.append(G("sub_CompressLine_short", "harness/C19/h_asmsub.c", "h_CompressLine_short", enforce=[], link=[], stubs=["stubs/gerr.c"], unwind=16, timeout=600,
                dfcc=False, object_bits=12, functions=["CompressLine", "ReplaceLine", "ReplaceToken", "IsValidParameterName"],
                bounded="lines of at most 6 characters without backslash, one-letter parameter name, case-sensitive"))
TRUSTED_BASE = ["as_dynstr_copy_c_str / ExpandLine / local-handle stubs log their arguments"]
ASSUMPTIONS = []
NOT_COVERED = ["ReadMacro", "WHILE_Processor", "INCLUDE/BINCLUDE", "token substitution in asmsub.c"]
EXPLANATION = ("Kernel only: contracts decide the per-call stepping facts (which body line, which parameter group, when the construct ends, "
               "which source line is current); the transparency statement itself is a relation between two programs and is not decided.")

MANIFEST = dict(
    category="other",
    text="Contracts on the stepping kernel of repetition constructs in as.c: REPT_Processor and IRP_Processor deliver body line LineZ, substitute "
         "exactly the current parameter group as tokens 1..n, advance (iteration, line) lexicographically and end exactly after the last line of "
         "the last iteration / parameter group, opening one local symbol space per iteration. Transparency itself (equality of two programs' "
         "outputs) is not decidable by a per-call contract; token substitution in the body text and INCLUDE are named unverified. Added: EXITM inside IRP (IRP_Cleanup safe when run twice), balanced local symbol spaces of a macro level (none for an empty body), IRPN group size, SHIFT inside nested repetitions, the whole-name rule of parameter substitution (IsValidParameterName for every line; CompressLine bounded); ExpandMacro (positional, keyword, default and excess arguments, ALLARGS, ARGCOUNT: 12 groups over concrete list shapes) and ComputeMacroStrings (ALLARGS/ARGCOUNT after SHIFT).",
    note="Bounded: body <= 3 lines, <= 4 parameters, IRPN group <= 2 (iteration counts unbounded); macro calls with <= 3 arguments of <= 3 characters and <= 2 formal parameters. Trusted: logging stubs for the string helpers.",
)
