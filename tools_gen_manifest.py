#!/usr/bin/env python3
"""Regenerates MANIFEST.json from the per-property check modules (checks/Cxx.py: MANIFEST dict)
and the static parts below.  Run after editing a check module."""
import importlib.util, json, os, sys
V = os.path.dirname(os.path.abspath(__file__))
sys.path.insert(0, os.path.join(V, "lib"))
NA = {
 "C15": "relation between two whole programs (dasl output re-assembled by asl) through two text layers; no per-call contract expresses it (DESIGN.md 3/C15)",
 "C16": "hyperproperty: equality of the outputs of two runs on two different source texts; a function contract speaks about one call (DESIGN.md 3/C16)",
 "C17": "hyperproperty over runs under different configurations; the contract-shaped fragment (frame conditions of report functions) is not the property (DESIGN.md 3/C17)",
 "C18": "quantifies over all state that may survive between files, including statics of ~100 code generators; a contract can list variables that are reset, not show that no unlisted state matters (DESIGN.md 3/C18)",
}
checks = []
claimed = []
for n in range(1, 21):
    pid = "C%02d" % n
    path = os.path.join(V, "checks", pid + ".py")
    if not os.path.exists(path):
        continue
    spec = importlib.util.spec_from_file_location("c_" + pid, path)
    mod = importlib.util.module_from_spec(spec)
    spec.loader.exec_module(mod)
    m = getattr(mod, "MANIFEST", None)
    if not m:
        continue
    claimed.append(pid)
    checks.append({
        "property_id": pid,
        "quick_cmd": "bin/check %s --tier quick" % pid,
        "thorough_cmd": "bin/check %s --tier thorough" % pid,
        "evidence_file": "/verif/evidence/%s.json" % pid,
        "replay_cmd_template": "bin/replay {path}",
        "engine": "cbmc-contracts",
        "level_claimed": {"category": m["category"], "text": m["text"], "design_ref": m.get("design_ref", "DESIGN.md section 3/" + pid)},
        "level_note": m["note"],
        "technique": m.get("technique", "contract-based deductive verification: CBMC 6.11 function/loop contracts (goto-instrument --dfcc) on the real /repo sources"),
    })
na = []
for n in range(1, 21):
    pid = "C%02d" % n
    if pid in claimed:
        continue
    na.append({"property_id": pid, "reason": NA.get(pid, "kernel contracts for this property are not built yet; not claimed (DESIGN.md section 10)")})
man = {
 "version": 1,
 "setup_cmd": "python3 -c \"import json;json.load(open('MANIFEST.json'))\" && cbmc --version && goto-instrument --version && gcc --version | head -1",
 "hooks": {
   "guard": "ASL_VERIF",
   "enable": "every goto-cc compilation of a harness passes -DASL_VERIF; with it verif_hooks.h expands VERIF_LOOP(name) to the loop contract text held in /verif/contracts; without it the macro expands to nothing and object code is unchanged",
   "baseline_off_cmd": "cmake -G Ninja -S /repo -B /repo/_build >/dev/null && cmake --build /repo/_build && ctest --test-dir /repo/_build -j8 --timeout 900",
   "source_commits": json.load(open(os.path.join(V, "hook_commits.json"))) if os.path.exists(os.path.join(V, "hook_commits.json")) else [],
   "add_only": False
 },
 "engines": [{"name": "cbmc-contracts", "path": "/verif/bin/check", "serves_properties": claimed,
              "kind_free_text": "python driver: goto-cc on harness + real /repo TU, goto-instrument --dfcc contract instrumentation, cbmc (SAT), native ASan/UBSan replay of counterexamples"}],
 "checks": checks,
 "not_applicable": na,
 "notes": "Exit codes of every check: 0 held, 1 violation (VIOLATION line), 2 undecided/broken (never a VIOLATION line). Known findings: /verif/known_findings.json."
}
json.dump(man, open(os.path.join(V, "MANIFEST.json"), "w"), indent=1)
print("claimed:", claimed)
