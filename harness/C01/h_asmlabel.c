/* C01 harness: label entry followed by the padding fix-up (asmlabel.c), against the proven
 * contract of the symbol table (SymbolAdder, see harness/C13): re-entering a constant whose
 * value differs from the value carried over from the previous pass requests another pass. */
#include "verif.h"
#include <stdio.h>
#include <string.h>
#include "stdinc.h"
#include "asmdef.h"
#include "asmsub.h"
#include "asmpars.h"
#include "asmstructs.h"
#include "asmlabel.h"
#include "stubs/gerr.h"

/* the symbol table as specified by SymbolAdder's contract (one label) */
static long long g_prev;     /* value carried over from the previous pass */
static long long g_cur;      /* value stored now */
static int       g_entered;
static int       g_sym_obj;  /* the entry object (opaque) */
struct sSymbolEntry* EnterIntSymbolWithFlags(tStrComp const* pName, LargeInt Wert, as_addrspace_t addrspace, Boolean MayChange, tSymbolFlags Flags) {
    (void)pName; (void)addrspace; (void)MayChange; (void)Flags;
    g_entered++;
    if ((long long)Wert != g_prev) Repass = True; /* SymbolAdder: "a constant whose value differs ... requests another pass" */
    g_cur = (long long)Wert;
    return (struct sSymbolEntry*)&g_sym_obj;
}
void ChangeSymbol(struct sSymbolEntry* pEntry, LargeInt Value) { (void)pEntry; g_cur = (long long)Value; }
void PushLocHandle(LongInt NewLoc) { (void)NewLoc; }
void PopLocHandle(void) {}

#include "contracts/loop_defaults.h"
#include "asmlabel.c" /* the real /repo/asmlabel.c */

/* a label placed before a padded data statement: entered with the unpadded address v0, then
 * moved behind the padding (v1).  If v1 is the value the label had in the previous pass, the
 * layout is at its fixpoint and no further pass may be requested. */
void h_label_fixup(void) {
    static tStrComp name; static char nm[2]; unsigned long long v0, v1; Boolean rp0;
    nm[0] = 'L'; nm[1] = 0; name.str.p_str = nm;
    pInnermostNamedStruct = NULL; RelSegs = False; AfterBSRAddr = 0;
    VND(v0, u64); VND(v1, u64); VND(g_prev, i64);
    VND(Repass, uchar); VASSUME(Repass <= 1);
    ActPC = SegCode;
#ifdef VERIF_EXCLUDE_C01_PAD_LIVELOCK
    VASSUME(v0 == v1);
#endif
#ifdef VERIF_ONLY_C01_PAD_LIVELOCK
    VASSUME(v0 != v1);
#endif
    g_entered = 0; rp0 = Repass;
    LabelHandle(&name, v0, False);
    LabelModify(v0, v1);
    VPOST(g_entered == 1 && g_cur == (long long)v1, "C01: after the fix-up the label holds the address behind the padding");
    VPOST((long long)v1 != g_prev || Repass == rp0, "C01: a label whose final value equals its value of the previous pass does not request another pass");
    VPOST((long long)v1 == g_prev || Repass, "C01: a label whose final value differs from the previous pass requests another pass");
    VREACH("end");
}

/* ---- C10: a label inside a STRUCT/UNION body defines a field at its offset.  The element recorded in the innermost
 * NAMED structure (used when the structure is instantiated) must carry the offset counted from that structure's start:
 * the label's position in its own (possibly unnamed, nested) union/struct plus the offsets at which the unnamed levels
 * in between were opened -- the same value the definition symbol S_FIELD gets relative to S. */
static TStructElem g_elem; static int g_add_calls, g_sym_calls; static unsigned long long g_sym_val; static PStructRec g_add_rec;
PStructElem CreateStructElem(const struct sStrComp* pElemName) { (void)pElemName; g_elem.Offset = 0; g_elem.Next = NULL; return &g_elem; }
Boolean AddStructElem(PStructRec pStructRec, PStructElem pElement) { (void)pElement; g_add_calls++; g_add_rec = pStructRec; return True; }
void AddStructSymbol(char const* pName, LargeWord Value) { (void)pName; g_sym_calls++; g_sym_val = Value; }
void h_label_struct_elem(void) {
    static tStrComp name; static char nm[2]; static TStructStack lv[4]; static TStructRec rec; int depth, i; unsigned long long v0, v1, base = 0; Boolean fix;
    nm[0] = 'F'; nm[1] = 0; name.str.p_str = nm;
    VND(depth, int); VASSUME(depth >= 0 && depth <= 2);            /* number of unnamed struct/union levels inside the named structure */
    for (i = 0; i < 4; i++) { lv[i].Next = (i < 3) ? &lv[i + 1] : NULL; VND(lv[i].SaveCurrPC, u64); VASSUME(lv[i].SaveCurrPC < 0x1000000); lv[i].StructRec = NULL; lv[i].Name = nm; }
    /* stack (top first): depth unnamed levels, then the named structure, then the bottom entry (saved segment PC) */
    StructStack = &lv[2 - depth]; pInnermostNamedStruct = &lv[2]; lv[2].StructRec = &rec; lv[3].Next = NULL;
    for (i = 0; i < 2; i++) if (i >= 2 - depth) base += lv[i].SaveCurrPC;
    VND(v0, u64); VND(v1, u64); VASSUME(v0 < 0x1000000 && v1 < 0x1000000); VND(fix, uchar);
    g_add_calls = g_sym_calls = 0; g_entered = 0;
    LabelHandle(&name, v0, False);
    VPOST(g_add_calls == 1 && g_add_rec == &rec && g_sym_calls == 1 && g_entered == 0, "C10: a label in a structure body defines one field of the innermost named structure and no ordinary symbol");
    VPOST(g_sym_val == v0, "C10: the definition symbol gets the label's position (the enclosing offsets are added by AddStructSymbol)");
    VPOST((unsigned long long)g_elem.Offset == base + v0, "C10: the field's offset counts from the start of the named structure: position in its own level + offsets of the unnamed levels in between");
    if (fix & 1) {
        LabelModify(v0, v1);                                       /* padding fix-up */
        VPOST((unsigned long long)g_elem.Offset == base + v1, "C10: ... also after the padding fix-up");
    }
    VREACH("end");
}
