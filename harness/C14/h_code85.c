/* C14 harness: the 8080/8085 code generator of the real /repo/code85.c in Intel syntax (the default; Z80SYNTAX OFF)
 * against an independent reference of the 8080/8085 instruction set (Intel 8080/8085 assembly language manual), plus the
 * undocumented 8085 instructions AS offers for CPU 8085UNDOC.  The formula evaluator is an oracle constrained by its own
 * contract (OK => value within the requested integer type).  Z80-syntax handlers are not covered. */
#include "verif.h"
#include <stdio.h>
#include <stdlib.h>
#include <string.h>
#include "stdinc.h"
#include "asmdef.h"
#include "asmsub.h"
#include "asmpars.h"
#include "asmitree.h"
#include "errmsg.h"
#include "intpseudo.h"
#include "stubs/gerr.h"

typedef struct { char const* name; Word code; InstProc proc; } tabent_t;
static tabent_t g_tab[160]; static int g_ntab;
void AddInstTable(PInstTable tab, char const* Name, Word Index, InstProc Proc) { (void)tab; if (g_ntab >= 0 && g_ntab < 160) { g_tab[g_ntab].name = Name; g_tab[g_ntab].code = Index; g_tab[g_ntab].proc = Proc; } g_ntab++; }
PInstTable CreateInstTable(int TableSize) { static TInstTable t; (void)TableSize; return &t; }
static long long g_ev_val; static int g_ev_ok; static unsigned g_ev_flags; static int g_ev_calls, g_ev_type;
static long long type_max(IntType t) { return t == UInt3 ? 7 : t == UInt6 ? 63 : t == Int8 ? 255 : t == Int16 ? 65535 : 0x7fffffff; }
static long long type_min(IntType t) { return t == Int8 ? -128 : t == Int16 ? -32768 : 0; }
LargeInt EvalStrIntExpressionWithResult(tStrComp const* pExpr, IntType Type, tEvalResult* pResult) {
    (void)pExpr; g_ev_calls++; g_ev_type = Type; pResult->OK = (Boolean)(g_ev_ok != 0); pResult->Flags = (tSymbolFlags)g_ev_flags; pResult->AddrSpaceMask = 0; pResult->DataSize = eSymbolSizeUnknown;
    VASSUME(!g_ev_ok || (g_ev_val >= type_min(Type) && g_ev_val <= type_max(Type)));
    return g_ev_ok ? g_ev_val : -1;
}
LargeInt EvalStrIntExpressionWithFlags(tStrComp const* pExpr, IntType Type, Boolean* pResult, tSymbolFlags* pFlags) {
    tEvalResult r; LargeInt v = EvalStrIntExpressionWithResult(pExpr, Type, &r); *pResult = r.OK; if (pFlags) *pFlags = r.Flags; return v;
}
LargeInt EvalStrIntExpression(tStrComp const* pExpr, IntType Type, Boolean* pResult) { return EvalStrIntExpressionWithFlags(pExpr, Type, pResult, NULL); }
void ChkSpace(Byte AddrSpace, unsigned AddrSpaceMask) { (void)AddrSpace; (void)AddrSpaceMask; }
Boolean ChkMinCPUExt(CPUVar MinCPU, tErrorNum ErrorNum) { if (MomCPU < MinCPU) { g_err_cnt++; g_err_last = (int)ErrorNum; return False; } return True; }
Boolean ChkZ80Syntax(tZ80Syntax InstrSyntax) {                              /* intpseudo.c, faithful */
    if ((InstrSyntax == eSyntax808x) && (!(CurrZ80Syntax & eSyntax808x))) { g_err_cnt++; g_err_last = ErrNum_Z80SyntaxExclusive; return False; }
    else if ((InstrSyntax == eSyntaxZ80) && (!(CurrZ80Syntax & eSyntaxZ80))) { g_err_cnt++; g_err_last = ErrNum_Z80SyntaxNotEnabled; return False; }
    return True;
}
static int up(int c) { return (c >= 'a' && c <= 'z') ? c - 32 : c; }
int as_toupper(int c) { return up(c); }
int as_strcasecmp(char const* a, char const* b) { int i; for (i = 0; i < 8; i++) { int x = up((unsigned char)a[i]), y = up((unsigned char)b[i]); if (x != y) return x - y; if (!x) return 0; } return 0; }
static int mon0(void) { return 0; }
#define as_snprintf(...) mon0()
#include "contracts/loop_defaults.h"
#include "code85.c" /* the real /repo/code85.c */
#undef as_snprintf

/* ---- reference: 8080/8085 instruction set, Intel mnemonics -------------------------------------------------- */
enum { K_FIXED, K_ADR16, K_IMM8, K_ALU };
typedef struct { char const* mn; unsigned char op; unsigned char kind; unsigned char cpu; } ref_t;   /* cpu: 0 = 8080, 1 = 8085, 2 = 8085 undocumented */
static const ref_t ref[] = {
    {"NOP", 0x00, K_FIXED, 0}, {"HLT", 0x76, K_FIXED, 0}, {"RRC", 0x0F, K_FIXED, 0}, {"RAL", 0x17, K_FIXED, 0}, {"RAR", 0x1F, K_FIXED, 0}, {"DAA", 0x27, K_FIXED, 0},
    {"CMA", 0x2F, K_FIXED, 0}, {"STC", 0x37, K_FIXED, 0}, {"CMC", 0x3F, K_FIXED, 0}, {"XCHG", 0xEB, K_FIXED, 0}, {"XTHL", 0xE3, K_FIXED, 0}, {"SPHL", 0xF9, K_FIXED, 0},
    {"PCHL", 0xE9, K_FIXED, 0}, {"EI", 0xFB, K_FIXED, 0}, {"DI", 0xF3, K_FIXED, 0},
    {"RNZ", 0xC0, K_FIXED, 0}, {"RZ", 0xC8, K_FIXED, 0}, {"RNC", 0xD0, K_FIXED, 0}, {"RC", 0xD8, K_FIXED, 0}, {"RPO", 0xE0, K_FIXED, 0}, {"RPE", 0xE8, K_FIXED, 0},
    {"RP", 0xF0, K_FIXED, 0}, {"RM", 0xF8, K_FIXED, 0}, {"RIM", 0x20, K_FIXED, 1}, {"SIM", 0x30, K_FIXED, 1},
    {"STA", 0x32, K_ADR16, 0}, {"LDA", 0x3A, K_ADR16, 0}, {"SHLD", 0x22, K_ADR16, 0}, {"LHLD", 0x2A, K_ADR16, 0}, {"JMP", 0xC3, K_ADR16, 0},
    {"JNZ", 0xC2, K_ADR16, 0}, {"JZ", 0xCA, K_ADR16, 0}, {"JNC", 0xD2, K_ADR16, 0}, {"JC", 0xDA, K_ADR16, 0}, {"JPO", 0xE2, K_ADR16, 0}, {"JPE", 0xEA, K_ADR16, 0}, {"JM", 0xFA, K_ADR16, 0},
    {"CNZ", 0xC4, K_ADR16, 0}, {"CZ", 0xCC, K_ADR16, 0}, {"CNC", 0xD4, K_ADR16, 0}, {"CC", 0xDC, K_ADR16, 0}, {"CPO", 0xE4, K_ADR16, 0}, {"CPE", 0xEC, K_ADR16, 0}, {"CM", 0xFC, K_ADR16, 0},
    {"ADI", 0xC6, K_IMM8, 0}, {"ACI", 0xCE, K_IMM8, 0}, {"SUI", 0xD6, K_IMM8, 0}, {"SBI", 0xDE, K_IMM8, 0}, {"ANI", 0xE6, K_IMM8, 0}, {"XRI", 0xEE, K_IMM8, 0}, {"ORI", 0xF6, K_IMM8, 0}, {"CPI", 0xFE, K_IMM8, 0},
    {"SBB", 0x98, K_ALU, 0}, {"ANA", 0xA0, K_ALU, 0}, {"XRA", 0xA8, K_ALU, 0}, {"ORA", 0xB0, K_ALU, 0}, {"CMP", 0xB8, K_ALU, 0},
};
#define NREF ((int)(sizeof(ref) / sizeof(ref[0])))
static int str_eq(char const* a, char const* b) { int i; for (i = 0; i < 8; i++) { if (a[i] != b[i]) return 0; if (!a[i]) return 1; } return 1; }
static int find(char const* mn) { int k; for (k = 0; k < 160; k++) if (k < g_ntab && str_eq(g_tab[k].name, mn)) return k; return -1; }
void h_table(void) {
    int i, lvl;
    CPU8080 = 1; CPU8085 = 2; CPU8085U = 3;
#ifdef VERIF_CPULVL
    lvl = VERIF_CPULVL;                      /* one obligation group per CPU (8080 / 8085 / 8085UNDOC): the table is then concrete */
#else
    VND(lvl, int); VASSUME(lvl >= 0 && lvl <= 2);
#endif
    MomCPU = 1 + lvl; g_ntab = 0;
    InitFields();
    for (i = 0; i < NREF; i++) {
        int k = find(ref[i].mn);
        if ((int)ref[i].cpu > lvl) { VPOST(k < 0, "C14: 8085-only instructions (RIM, SIM) are unknown to the 8080"); continue; }
        VPOST(k >= 0, "C14: every documented 8080/8085 mnemonic is known");
        VPOST((g_tab[k].code & 0xff) == ref[i].op && ((g_tab[k].code >> 8) & eSyntax808x), "C14: documented opcode, available in Intel syntax");
        switch (ref[i].kind) {
        case K_FIXED: VPOST(g_tab[k].proc == DecodeFixed, "C14: no-operand instruction"); break;
        case K_ADR16: VPOST(g_tab[k].proc == DecodeOp16, "C14: instruction with a 16-bit address operand"); break;
        case K_IMM8: VPOST(g_tab[k].proc == DecodeOp8, "C14: instruction with an 8-bit immediate operand"); break;
        case K_ALU: VPOST(g_tab[k].proc == DecodeALU, "C14: accumulator instruction with a register operand"); break;
        }
    }
    VREACH("end");
}

static char a1[4], a2[4], opn[2]; static tStrComp args[3];
static void mk(void) {
    int i; for (i = 0; i < 3; i++) { VND(a1[i], char); VND(a2[i], char); } a1[3] = a2[3] = 0; opn[0] = 'Q'; opn[1] = 0;
    args[1].str.p_str = a1; args[1].str.capacity = 4; args[2].str.p_str = a2; args[2].str.capacity = 4; ArgStr = args; OpPart.str.p_str = opn;
    BAsmCode = malloc(8); VASSUME(BAsmCode != NULL); BAsmCode[0] = BAsmCode[1] = BAsmCode[2] = 0x55; CodeLen = 0;
    CPU8080 = 1; CPU8085 = 2; CPU8085U = 3; VND(MomCPU, int); VASSUME(MomCPU >= 1 && MomCPU <= 3); CurrZ80Syntax = eSyntax808x;
    VND(g_ev_val, i64); VND(g_ev_ok, int); VND(g_ev_flags, uint); g_ev_calls = 0;
    VND(g_err_cnt, ulong); VASSUME(g_err_cnt < 1000000);
}
/* Intel register names: B C D E H L M A = 0..7; pairs B D H SP = 0..3 */
static int spec_r8(char const* s) { char const* n = "BCDEHLMA"; int i; if (s[0] == 0 || s[1] != 0) return -1; for (i = 0; i < 8; i++) if (up(s[0]) == n[i]) return i; return -1; }
static int spec_r16(char const* s) { if (up(s[0]) == 'B' && !s[1]) return 0; if (up(s[0]) == 'D' && !s[1]) return 1; if (up(s[0]) == 'H' && !s[1]) return 2; if (up(s[0]) == 'S' && up(s[1]) == 'P' && !s[2]) return 3; return -1; }

void h_DecodeFixed(void) { unsigned c; unsigned long ec; mk(); VND(ArgCnt, int); VASSUME(ArgCnt >= 0 && ArgCnt <= 2); VND(c, uint); VASSUME(c <= 0xff); ec = g_err_cnt;
    DecodeFixed((Word)(c | (eSyntax808x << 8)));
    if (ArgCnt == 0) { VPOST(CodeLen == 1 && BAsmCode[0] == c && g_err_cnt == ec, "C14: a no-operand instruction is its one opcode byte"); VREACH("ok"); }
    else { VPOST(CodeLen == 0 && g_err_cnt == ec + 1, "C14: operands on a no-operand instruction are rejected"); VREACH("rej"); } }
void h_DecodeOp16(void) { unsigned c; mk(); ArgCnt = 1; VND(c, uint); VASSUME(c <= 0xff);
    DecodeOp16((Word)(c | (eSyntax808x << 8)));
    VPOST(g_ev_calls == 1 && g_ev_type == Int16, "C14: the address operand is evaluated as a 16-bit value (larger ones are rejected by the evaluator)");
    if (g_ev_ok) { VPOST(CodeLen == 3 && BAsmCode[0] == c && BAsmCode[1] == ((unsigned)g_ev_val & 0xff) && BAsmCode[2] == (((unsigned)g_ev_val >> 8) & 0xff), "C14: opcode, address low byte, address high byte"); VREACH("ok"); }
    else { VPOST(CodeLen == 0, "C14: no code for a rejected address"); VREACH("rej"); } }
void h_DecodeOp8(void) { unsigned c; mk(); ArgCnt = 1; VND(c, uint); VASSUME(c <= 0xff);
    DecodeOp8((Word)(c | (eSyntax808x << 8)));
    VPOST(g_ev_calls == 1 && g_ev_type == Int8, "C14: the immediate is evaluated as an 8-bit value");
    if (g_ev_ok) { VPOST(CodeLen == 2 && BAsmCode[0] == c && BAsmCode[1] == ((unsigned)g_ev_val & 0xff), "C14: opcode, immediate byte"); VREACH("ok"); }
    else { VPOST(CodeLen == 0, "C14: no code for a rejected immediate"); VREACH("rej"); } }
void h_DecodeALU(void) { unsigned c; int r; unsigned long ec; mk(); ArgCnt = 1; VND(c, uint); VASSUME((c & 7) == 0 && c >= 0x80 && c <= 0xb8); ec = g_err_cnt; r = spec_r8(a1);
    DecodeALU((Word)(c | (eSyntax808x << 8)));
    if (r >= 0) { VPOST(CodeLen == 1 && BAsmCode[0] == c + (unsigned)r && g_err_cnt == ec, "C14: accumulator group: opcode | register (B C D E H L M A = 0..7)"); VREACH("ok"); }
    else { VPOST(CodeLen == 0 && g_err_cnt == ec + 1, "C14: anything but a register name is rejected"); VREACH("rej"); } }
void h_DecodeMOV(void) { int d, s; unsigned long ec; mk(); ArgCnt = 2; ec = g_err_cnt; d = spec_r8(a1); s = spec_r8(a2);
    DecodeMOV(0);
    if (d >= 0 && s >= 0 && !(d == 6 && s == 6)) { VPOST(CodeLen == 1 && BAsmCode[0] == 0x40u + 8u * (unsigned)d + (unsigned)s && g_err_cnt == ec, "C14: MOV d,s = 01 ddd sss"); VREACH("ok"); }
    else { VPOST(CodeLen == 0 && g_err_cnt == ec + 1, "C14: MOV M,M (that is HLT) and non-registers are rejected"); VREACH("rej"); } }
void h_DecodeMVI(void) { int d; mk(); ArgCnt = 2; d = spec_r8(a1);
    DecodeMVI(0);
    if (g_ev_ok && d >= 0) { VPOST(CodeLen == 2 && BAsmCode[0] == 0x06u + 8u * (unsigned)d && BAsmCode[1] == ((unsigned)g_ev_val & 0xff) && g_ev_type == Int8, "C14: MVI r,data = 00 rrr 110, data"); VREACH("ok"); }
    else { VPOST(CodeLen == 0, "C14: MVI with a bad register or a rejected immediate produces no code"); VREACH("rej"); } }
void h_DecodeLXI(void) { int p; mk(); ArgCnt = 2; p = spec_r16(a1);
    DecodeLXI(0);
    if (g_ev_ok && p >= 0) { VPOST(CodeLen == 3 && BAsmCode[0] == 0x01u + 16u * (unsigned)p && BAsmCode[1] == ((unsigned)g_ev_val & 0xff) && BAsmCode[2] == (((unsigned)g_ev_val >> 8) & 0xff) && g_ev_type == Int16, "C14: LXI rp,data16 = 00 rp0 001, low, high"); VREACH("ok"); }
    else { VPOST(CodeLen == 0, "C14: LXI with a bad register pair or a rejected value produces no code"); VREACH("rej"); } }
void h_DecodeLDAX_STAX(void) { int p; unsigned ld; unsigned long ec; mk(); ArgCnt = 1; VND(ld, uint); VASSUME(ld <= 1); ec = g_err_cnt; p = spec_r16(a1);
    DecodeLDAX_STAX((Word)ld);
    if (p == 0 || p == 1) { VPOST(CodeLen == 1 && BAsmCode[0] == 0x02u + 16u * (unsigned)p + 8u * ld && g_err_cnt == ec, "C14: STAX/LDAX rp = 00 rp0 010 / 00 rp1 010 for B and D"); VREACH("ok"); }
    else if (p == 2) { VPOST(CodeLen == 1 && BAsmCode[0] == (ld ? 0x7Eu : 0x77u), "C14: LDAX/STAX H is assembled as MOV A,M / MOV M,A (AS extension, same effect)"); VREACH("h"); }
    else { VPOST(CodeLen == 0 && g_err_cnt == ec + 1, "C14: LDAX/STAX SP or a non-pair is rejected"); VREACH("rej"); } }
void h_DecodePUSH_POP(void) { int p; unsigned push; unsigned long ec; mk(); ArgCnt = 1; VND(push, uint); VASSUME(push == 0 || push == 4); ec = g_err_cnt;
    p = spec_r16(a1); if (up(a1[0]) == 'P' && up(a1[1]) == 'S' && up(a1[2]) == 'W' && !a1[3]) p = 4;
    DecodePUSH_POP((Word)push);
    if (p == 4 || (p >= 0 && p <= 2)) { VPOST(CodeLen == 1 && BAsmCode[0] == 0xC1u + 16u * (unsigned)(p == 4 ? 3 : p) + push && g_err_cnt == ec, "C14: POP/PUSH rp = 11 rp0 001 / 11 rp0 101 (PSW = 3)"); VREACH("ok"); }
    else if (up(a1[0]) == 'A' && up(a1[1]) == 'F' && !a1[2]) { VPOST(CodeLen == 0, "C14: the Z80 name AF is not accepted in Intel syntax"); }
    else { VPOST(CodeLen == 0 && g_err_cnt == ec + 1, "C14: PUSH/POP SP or a non-pair is rejected"); VREACH("rej"); } }
void h_DecodeINR_DCR(void) { int r; unsigned dcr; unsigned long ec; mk(); ArgCnt = 1; VND(dcr, uint); VASSUME(dcr <= 1); ec = g_err_cnt; r = spec_r8(a1);
    DecodeINR_DCR((Word)dcr);
    if (r >= 0) { VPOST(CodeLen == 1 && BAsmCode[0] == 0x04u + 8u * (unsigned)r + dcr && g_err_cnt == ec, "C14: INR/DCR r = 00 rrr 100 / 00 rrr 101"); VREACH("ok"); }
    else { VPOST(CodeLen == 0 && g_err_cnt == ec + 1, "C14: INR/DCR of a non-register is rejected"); VREACH("rej"); } }
void h_DecodeINX_DCX_DAD(void) { int p; unsigned sel; unsigned long ec; mk(); ArgCnt = 1; VND(sel, uint); VASSUME(sel <= 2); ec = g_err_cnt; p = spec_r16(a1);
    if (sel == 2) DecodeDAD(0); else DecodeINX_DCX((Word)(sel ? 8 : 0));
    if (p >= 0) { VPOST(CodeLen == 1 && BAsmCode[0] == (sel == 2 ? 0x09u : sel ? 0x0Bu : 0x03u) + 16u * (unsigned)p && g_err_cnt == ec, "C14: INX / DCX / DAD rp = 00 rp0 011 / 00 rp1 011 / 00 rp1 001"); VREACH("ok"); }
    else { VPOST(CodeLen == 0 && g_err_cnt == ec + 1, "C14: a non-pair operand is rejected"); VREACH("rej"); } }
void h_DecodeRST(void) { unsigned long ec; mk(); ArgCnt = 1; MomCPU = 1; a1[0] = '3'; a1[1] = 0; ec = g_err_cnt; g_ev_flags &= ~(unsigned)eSymbolFlag_FirstPassUnknown;
    DecodeRST(0);
    VPOST(g_ev_calls == 1 && g_ev_type == UInt3, "C14: RST takes a 3-bit vector number (larger ones are rejected by the evaluator)");
    if (g_ev_ok) { VPOST(CodeLen == 1 && BAsmCode[0] == 0xC7u + 8u * (unsigned)g_ev_val && g_err_cnt == ec, "C14: RST n = 11 nnn 111"); VREACH("ok"); }
    else { VPOST(CodeLen == 0, "C14: no code for a rejected vector"); VREACH("rej"); } }
