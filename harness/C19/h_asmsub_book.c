/* C19 harness: BookKeeping of the real /repo/asmsub.c -- the function through which every code-bearing line
 * reaches the usage map (listing), the section usage and the debug-info records (MAP / NoICE / Atmel).
 * All three must be told the address at which the code file holds the line: the LOAD address
 * (ProgCounter()), never the phased one. */
#include "verif.h"
#include <stdio.h>
#include <stdlib.h>
#include <string.h>
#include "stdinc.h"
#include "stubs/gerr.h"
#include "chunks.h"
#include "asmdef.h"
#include "asmpars.h"
#include "asmdebug.h"

static int g_chunk_calls, g_chunk_ret, g_chunk_warn, g_sec_calls, g_li_calls, g_li_macro, g_li_line, g_li_space;
static ChunkList* g_chunk_list; static unsigned long long g_chunk_start, g_chunk_len, g_sec_start, g_sec_len, g_li_adr, g_li_len;
static char const* g_li_file;
static Boolean verif_AddChunk(ChunkList* NChunk, LargeWord NewStart, LargeWord NewLen, Boolean Warn) {
    g_chunk_calls++; g_chunk_list = NChunk; g_chunk_start = NewStart; g_chunk_len = NewLen; g_chunk_warn = Warn; return (Boolean)(g_chunk_ret != 0);
}
#define AddChunk(a, b, c, d) verif_AddChunk((a), (b), (c), (d))
static void verif_AddSectionUsage(LongInt Start, LongInt Length) { g_sec_calls++; g_sec_start = (unsigned long long)Start; g_sec_len = (unsigned long long)Length; }
#define AddSectionUsage(a, b) verif_AddSectionUsage((a), (b))
static void verif_AddLineInfo(Boolean InMacro, LongInt LineNum, char* FileName, ShortInt Space, LargeInt Address, LargeInt Len) {
    g_li_calls++; g_li_macro = InMacro; g_li_line = LineNum; g_li_file = FileName; g_li_space = Space; g_li_adr = (unsigned long long)Address; g_li_len = (unsigned long long)Len;
}
#define AddLineInfo(a, b, c, d, e, f) verif_AddLineInfo((a), (b), (c), (d), (e), (f))
#include "contracts/loop_defaults.h"
#include "asmsub.c" /* the real /repo/asmsub.c */
#undef AddChunk
#undef AddSectionUsage
#undef AddLineInfo

void h_BookKeeping(void) {
    int k; unsigned long long pc, ph; unsigned long err0; char fn[2];
    VND(ActPC, uchar); VASSUME(ActPC < SegCount);
    VND(k, int); VASSUME(k >= 0 && k < SegCount);
    PCs = malloc(SegCountPlusStruct * sizeof(LargeWord));
    Phases = malloc(SegCountPlusStruct * sizeof(LargeWord));
    VASSUME(PCs && Phases);
    VND(PCs[ActPC], u64); VND(Phases[ActPC], u64); VND(PCs[k], u64); VND(Phases[k], u64);
    pc = PCs[ActPC]; ph = Phases[ActPC];
    VND(CodeLen, int); VASSUME(CodeLen >= 0);
    VND(MakeUseList, uchar); VND(DebugMode, int); VASSUME(DebugMode >= DebugNone && DebugMode <= DebugNoICE);
    VND(InMacroFlag, uchar); VND(CurrLine, int); fn[0] = 'f'; fn[1] = 0; CurrFileName = fn;
    VND(g_chunk_ret, int);
    g_chunk_calls = g_sec_calls = g_li_calls = 0; err0 = g_err_cnt = 0;
    BookKeeping();
    VPOST(g_chunk_calls == (MakeUseList ? 1 : 0), "C19: the usage map is updated once per line iff a listing with usage map is requested");
    if (MakeUseList) {
        VPOST(g_chunk_list == SegChunks + ActPC && g_chunk_start == pc && g_chunk_len == (unsigned long long)(LargeWord)CodeLen,
              "C19: the usage map of the active segment gets the line's load address and length");
        VPOST((g_err_cnt == err0 + 1) == (g_chunk_ret != 0), "C19: an overlap is reported exactly when the usage map finds one");
    }
    VPOST(g_li_calls == (DebugMode != DebugNone ? 1 : 0) && g_sec_calls == g_li_calls, "C19: one debug record per code-bearing line iff debug output is requested");
    if (DebugMode != DebugNone) {
        VPOST(g_li_adr == pc && g_li_space == ActPC && g_li_line == CurrLine && g_li_file == fn && g_li_len == (unsigned long long)(LargeInt)CodeLen && g_li_macro == InMacroFlag,
              "C19: the debug record carries the address at which the code file holds the line (load address, not the phased one), its segment, line and length");
        VPOST(g_sec_start == (unsigned long long)(LongInt)pc && g_sec_len == (unsigned long long)(LongInt)CodeLen, "C19: section usage gets the load address and length");
        VREACH("debug");
    }
    VPOST(PCs[ActPC] == pc && Phases[ActPC] == ph, "C19: bookkeeping does not move the counters");
    VREACH("end");
}
