"""C05 -- P2BIN writes the memory image described by the code file (p2bin.c)"""
from vdriver import G
LEVEL = "proof"
SRC = "harness/C05/h_p2bin.c"
ERRNO = ["-include", "$VERIF/include/verif_errno_shim.h"]
GROUPS = []
for gran in (1, 2, 4):
  GROUPS.append(G("pb_ProcessFile_data_g%d" % gran, SRC, "h_ProcessFile_data", enforce=[], dfcc=False, defs=["-DVERIF_GRAN=%d" % gran], link=["toolutils.c", "as_endian.c", "bpemu.c"], loops=True,
                  unwind=12, unwindset=["ProcessFile.0:3"], timeout=600, cflags=ERRNO, functions=["ProcessFile"], object_bits=12, split=12, flags=["--slice-formula"],
                  bounded="input = one data record (any CPU, segment, granularity 1/2/4, address, length; copy loop under loop contract) + end record; byte mode ALL"))
TRUSTED_BASE = ["stubs/gfile.c ghost stdio model", "FilterOK and AddChunk observed/oracle (FilterOK is under contract in C07)"]
ASSUMPTIONS = ["record addresses do not wrap around 2^32", "granularity byte is 1, 2 or 4"]
NOT_COVERED = []
EXPLANATION = ""
