/* Contracts for the built-in function bodies of /repo/function.c and SingleBit of
 * asmpars.c (property C08; safety part C03).
 * Specification source: doc/assembler-usage.md, table "Functions Predefined by AS" and the
 * paragraphs below it. */
#ifndef FUNCTION_CONTRACTS_H
#define FUNCTION_CONTRACTS_H

#include "stdinc.h"
#include "function.h"
#include "tempresult.h"
#include "stubs/gerr.h"

#define U64(x) ((unsigned long long)(x))
#define S64(x) ((long long)(x))

extern long long g_x_i; /* ghost parameter: expected integer value (see operator.contracts.h) */
extern unsigned  gk_idx; /* ghost witness index */

/* lowest / highest set bit, -1 if none */
#define SPEC_IS_FIRSTBIT(in, r) \
    ((U64(in) == 0) ? ((r) == -1) : ((r) >= 0 && (r) < 64 && ((U64(in) >> (r)) & 1u) && ((U64(in) & ((1ull << (r)) - 1ull)) == 0)))
#define SPEC_IS_LASTBIT(in, r) \
    ((U64(in) == 0) ? ((r) == -1) : ((r) >= 0 && (r) < 64 && ((U64(in) >> (r)) == 1ull)))
#define SPEC_ONEBIT(in) (U64(in) != 0 && (U64(in) & (U64(in) - 1ull)) == 0)
#define SPEC_TOUPPER(c) (((c) >= 'a' && (c) <= 'z') ? (c) - 32 : (c))
#define SPEC_TOLOWER(c) (((c) >= 'A' && (c) <= 'Z') ? (c) + 32 : (c))

#define FN_DECL(name) static void name(TempResult* pResult, TempResult const* pArgs, unsigned ArgCnt)
#define FN_PRE __CPROVER_requires(pResult->Typ == TempNone) __CPROVER_requires((TempResult const*)pResult != pArgs)
#define FN_FRAME __CPROVER_assigns(*pResult) __CPROVER_assigns(g_err_cnt, g_err_last)
#define FN_NO_ERR __CPROVER_ensures(g_err_cnt == __CPROVER_old(g_err_cnt))
#define A0I (pArgs[0].Contents.Int)
#define A0F (pArgs[0].Contents.Float)
#define RES_INT(expr) __CPROVER_ensures(pResult->Typ == TempInt && pResult->Contents.Int == (expr))

#ifdef VERIF_CBMC

FN_DECL(FuncBITCNT) FN_PRE __CPROVER_requires(pArgs[0].Typ == TempInt)
    RES_INT(__builtin_popcountll(U64(A0I))) FN_NO_ERR FN_FRAME;

FN_DECL(FuncFIRSTBIT) FN_PRE __CPROVER_requires(pArgs[0].Typ == TempInt)
    __CPROVER_ensures(pResult->Typ == TempInt && SPEC_IS_FIRSTBIT(A0I, pResult->Contents.Int)) FN_NO_ERR FN_FRAME;

FN_DECL(FuncLASTBIT) FN_PRE __CPROVER_requires(pArgs[0].Typ == TempInt)
    __CPROVER_ensures(pResult->Typ == TempInt && SPEC_IS_LASTBIT(A0I, pResult->Contents.Int)) FN_NO_ERR FN_FRAME;

/* BITPOS: position of the unique 1 bit; otherwise -1 and an error message */
FN_DECL(FuncBITPOS) FN_PRE __CPROVER_requires(pArgs[0].Typ == TempInt)
    __CPROVER_ensures(pResult->Typ == TempInt)
    __CPROVER_ensures(!SPEC_ONEBIT(A0I) ||
        (SPEC_IS_FIRSTBIT(A0I, pResult->Contents.Int) && g_err_cnt == __CPROVER_old(g_err_cnt)))
    __CPROVER_ensures(SPEC_ONEBIT(A0I) ||
        (pResult->Contents.Int == -1 && g_err_cnt == __CPROVER_old(g_err_cnt) + 1 && g_err_last == ErrNum_NotOneBit))
    FN_FRAME;

Boolean SingleBit(LargeInt Inp, LargeInt* Erg)
    __CPROVER_ensures(__CPROVER_return_value == (SPEC_ONEBIT(Inp) ? 1 : 0))
    __CPROVER_ensures(!SPEC_ONEBIT(Inp) || SPEC_IS_FIRSTBIT(Inp, *Erg))
    __CPROVER_assigns(*Erg);

#ifndef VERIF_OPT_FLOAT
FN_DECL(FuncABS) FN_PRE __CPROVER_requires(pArgs[0].Typ == TempInt)
    RES_INT((A0I < 0) ? S64(0ull - U64(A0I)) : A0I) FN_NO_ERR FN_FRAME;
FN_DECL(FuncSGN) FN_PRE __CPROVER_requires(pArgs[0].Typ == TempInt)
    RES_INT((A0I < 0) ? -1 : ((A0I > 0) ? 1 : 0)) FN_NO_ERR FN_FRAME;
#else
FN_DECL(FuncABS) FN_PRE __CPROVER_requires(pArgs[0].Typ == TempFloat)
    __CPROVER_ensures(pResult->Typ == TempFloat &&
        ((A0F != A0F) ? (pResult->Contents.Float != pResult->Contents.Float)
                      : (pResult->Contents.Float == ((A0F < 0) ? -A0F : A0F) && !__CPROVER_signd(pResult->Contents.Float))))
    FN_NO_ERR FN_FRAME;
FN_DECL(FuncSGN) FN_PRE __CPROVER_requires(pArgs[0].Typ == TempFloat)
    RES_INT((A0F < 0) ? -1 : ((A0F > 0) ? 1 : 0)) FN_NO_ERR FN_FRAME;
#endif

FN_DECL(FuncTOUPPER) FN_PRE __CPROVER_requires(pArgs[0].Typ == TempInt)
    __CPROVER_ensures(!(A0I >= 0 && A0I <= 255) ||
        (pResult->Typ == TempInt && pResult->Contents.Int == SPEC_TOUPPER(A0I) && g_err_cnt == __CPROVER_old(g_err_cnt)))
    __CPROVER_ensures((A0I >= 0 && A0I <= 255) ||
        (pResult->Typ == TempNone && g_err_cnt == __CPROVER_old(g_err_cnt) + 1 && g_err_last == ErrNum_OverRange))
    FN_FRAME;
FN_DECL(FuncTOLOWER) FN_PRE __CPROVER_requires(pArgs[0].Typ == TempInt)
    __CPROVER_ensures(!(A0I >= 0 && A0I <= 255) ||
        (pResult->Typ == TempInt && pResult->Contents.Int == SPEC_TOLOWER(A0I) && g_err_cnt == __CPROVER_old(g_err_cnt)))
    __CPROVER_ensures((A0I >= 0 && A0I <= 255) ||
        (pResult->Typ == TempNone && g_err_cnt == __CPROVER_old(g_err_cnt) + 1 && g_err_last == ErrNum_OverRange))
    FN_FRAME;

FN_DECL(FuncEXPRTYPE) FN_PRE
    RES_INT((pArgs[0].Typ == TempInt) ? 0 : (pArgs[0].Typ == TempFloat) ? 1 : (pArgs[0].Typ == TempString) ? 2 : -1)
    FN_NO_ERR FN_FRAME;

/* --- string functions: the string objects are heap buffers provided by the harness --- */
#define STR_OK(s) ((s).p_str != NULL && (s).len <= (s).capacity && (s).capacity >= 1)
#define A0S (pArgs[0].Contents.str)

FN_DECL(FuncSTRLEN) FN_PRE __CPROVER_requires(pArgs[0].Typ == TempString && STR_OK(A0S))
    RES_INT(S64(A0S.len)) FN_NO_ERR FN_FRAME;

/* CHARFROMSTR: character at the position, -1 if the position is negative or >= length */
FN_DECL(FuncCHARFROMSTR) FN_PRE
    __CPROVER_requires(pArgs[0].Typ == TempString && STR_OK(A0S) && pArgs[1].Typ == TempInt)
    __CPROVER_requires(A0S.len <= 0x7fffffff)
    __CPROVER_ensures(pResult->Typ == TempInt)
    __CPROVER_ensures(!(pArgs[1].Contents.Int >= 0 && U64(pArgs[1].Contents.Int) < A0S.len) ||
        pResult->Contents.Int == (LargeInt)A0S.p_str[pArgs[1].Contents.Int])
    __CPROVER_ensures((pArgs[1].Contents.Int >= 0 && U64(pArgs[1].Contents.Int) < A0S.len) ||
        pResult->Contents.Int == -1)
    FN_NO_ERR FN_FRAME;

#endif /* VERIF_CBMC */
#endif
