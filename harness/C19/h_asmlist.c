/* C19 harness: the code part of a listing line (real /repo/asmlist.c MakeList) against the line's code buffer.
 * The formatted-print calls are observed by a monitor that decodes which piece is printed (line address, code word,
 * padding) from the format string; the text itself is not built. */
#include "verif.h"
#include <stdio.h>
#include <stdlib.h>
#include <string.h>
#include <stdarg.h>
#include "stdinc.h"
#include "asmlist.h"
#include "asmcode.h"
#include "asmdef.h"
#include "asmif.h"
#include "asmsub.h"
#include "dynstr.h"
#include "strutil.h"

static unsigned           g_gran;
static unsigned long long g_pc_end, g_pc0;
static int                g_iflistmask;
Word      Granularity(void) { return (Word)g_gran; }
LargeWord EProgCounter(void) { return (LargeWord)g_pc_end; }
Boolean   IFListMask(void) { return (Boolean)(g_iflistmask != 0); }
char const* Blanks(int cnt) { (void)cnt; return ""; }
static int g_turn_calls;
void      DreheCodes(void) { g_turn_calls++; }
static int mon0(void) { return 0; }
#define as_snprintf(...) mon0()
#define DecString(...) mon0()

/* monitor state */
static unsigned g_idx;        /* code bytes shown so far */
static unsigned g_lines;      /* listing lines written */
static unsigned g_words_on_line, g_hdr_on_line;
static unsigned g_efflen;
static int      g_bad_fmt, g_extra;
static unsigned L8, L16, L32; /* copies of the column widths */

static int mon_sdprintf(as_dynstr_t* d, char const* fmt, ...) {
    va_list ap;
    (void)d;
    va_start(ap, fmt);
    /* the formats of MakeList, told apart by their first characters (a full strcmp per call made the formula too large):
     * "   "  "(%s)"  "%5s/"  "%8.*lx %c "  "%*s%8.*lx %c "  "%0*.*lx "  "%*s"  "%*s%s"  "%s %s%s" */
    if (fmt[0] == ' ' || fmt[0] == '(' || (fmt[0] == '%' && fmt[1] == '5')) {
        /* include depth / line number columns */
    } else if (fmt[0] == '%' && (fmt[1] == '8' || (fmt[1] == '*' && fmt[2] == 's' && fmt[3] == '%' && fmt[4] == '8'))) {
        int cont = (fmt[1] == '*');
        unsigned long long a;
        if (cont) { (void)va_arg(ap, int); (void)va_arg(ap, char const*); }
        (void)va_arg(ap, int);
        a = va_arg(ap, LargeWord);
        VPOST(a == g_pc0 + g_idx / g_gran, "C19: a listing line shows the address of the first code byte printed on it");
        VPOST(g_hdr_on_line == 0, "C19: one address column per listing line");
        VPOST(cont == (g_lines != 0), "C19: the first line carries the line number columns, continuation lines blanks");
        g_hdr_on_line = 1;
    } else if (fmt[0] == '%' && fmt[1] == '0') {
        /* the width argument is a Word; CBMC keeps variadic arguments in their declared width (no default promotion),
         * the native replay sees the promoted int */
#ifdef VERIF_NATIVE
        unsigned w = (unsigned)va_arg(ap, int), nb;
#else
        unsigned w = (unsigned)va_arg(ap, Word), nb;
#endif
        unsigned long long v, want = 0;
        (void)va_arg(ap, int);
        v = va_arg(ap, LargeWord);
        nb = (w == L8) ? 1 : (w == L16) ? 2 : (w == L32) ? 4 : 0;
        VPOST(nb != 0, "C19: code is printed in columns of the byte, word or long width");
        VPOST(g_hdr_on_line == 1, "C19: code follows the line's address");
        VPOST(g_idx + nb <= g_efflen, "C19: the listing shows no more code than the line has");
        if (nb == 1 && g_idx + 1 <= g_efflen) want = BAsmCode[g_idx];
        else if (nb == 2 && g_idx + 2 <= g_efflen) want = (unsigned long long)BAsmCode[g_idx] | ((unsigned long long)BAsmCode[g_idx + 1] << 8);
        else if (nb == 4 && g_idx + 4 <= g_efflen) want = (unsigned long long)BAsmCode[g_idx] | ((unsigned long long)BAsmCode[g_idx + 1] << 8) | ((unsigned long long)BAsmCode[g_idx + 2] << 16) | ((unsigned long long)BAsmCode[g_idx + 3] << 24);
        VPOST(v == want, "C19: the listing shows the line's code in order, every unit once (value of the unit at the running offset)");
        VPOST(nb == 1 || (g_idx % nb) == 0, "C19: words and longs are shown on their natural boundaries");
        g_idx += nb;
        g_words_on_line++;
    } else if (fmt[0] == '%' && fmt[1] == '*' && fmt[2] == 's' && (fmt[3] == 0 || (fmt[3] == '%' && fmt[4] == 's'))) {
        /* blank columns / padding + source text */
    } else if (fmt[0] == '%' && fmt[1] == 's') {
        g_extra++;
    } else g_bad_fmt++;
    va_end(ap);
    return 0;
}
#define as_sdprintf mon_sdprintf
#define as_sdprcatf mon_sdprintf
void WrLstLine(char const* Line) { (void)Line; g_lines++; g_words_on_line = 0; g_hdr_on_line = 0; }

#include "asmlist.c" /* the real /repo/asmlist.c */
#undef as_sdprintf
#undef as_sdprcatf
#undef as_snprintf
#undef DecString

static char listline_buf[8], src_buf[4];
/* MakeList for a line of 0..20 code bytes, every (granularity, listing granularity) pair the code generators set up
 * ((1,1) (1,2) (1,4) (2,2) (4,4)), column widths of any list radix (width8 < width16 < width32) */
void h_MakeList(void) {
    unsigned lg, cl; int listed;
    VND(g_gran, uint); VND(lg, uint);
    VASSUME((g_gran == 1 && (lg == 1 || lg == 2 || lg == 4)) || (g_gran == 2 && lg == 2) || (g_gran == 4 && lg == 4));
    VND(cl, uint); VASSUME(cl <= 12 && cl * g_gran <= 12);
    CodeLen = cl; g_efflen = cl * g_gran;
    VND(g_pc0, u64); VASSUME(g_pc0 < 0xffffffffffff0000ull); g_pc_end = g_pc0 + cl;
    ActListGran = (ShortInt)lg;
    { static Byte codebuf[12]; VND_BYTES(codebuf, 12); BAsmCode = codebuf; } WAsmCode = (Word*)BAsmCode; DAsmCode = (LongWord*)BAsmCode;
    VND(SystemListLen8, uint); VND(SystemListLen16, uint); VND(SystemListLen32, uint);
    VASSUME(SystemListLen8 >= 2 && SystemListLen8 <= 8 && SystemListLen16 > SystemListLen8 && SystemListLen16 <= 16 && SystemListLen32 > SystemListLen16 && SystemListLen32 <= 32);
    L8 = SystemListLen8; L16 = SystemListLen16; L32 = SystemListLen32;
    VND(WasIF, uchar); VND(WasMACRO, uchar); VND(IfAsm, uchar); VND(DoLst, uchar); VND(ListToNull, uchar); VND(ListMask, uchar); VND(g_iflistmask, int);
    VASSUME(WasIF <= 1 && WasMACRO <= 1 && IfAsm <= 1 && ListToNull <= 1);
    VND(IncDepth, int); VND(CurrLine, int); VND(Retracted, uchar); VND(DontPrint, uchar); VND(TurnWords, uchar); VND(ListRadixBase, int);
    VASSUME(Retracted <= 1 && DontPrint <= 1 && TurnWords <= 1);
    ListLine = listline_buf; listline_buf[0] = 0; src_buf[0] = 0;
    g_idx = 0; g_lines = 0; g_words_on_line = 0; g_hdr_on_line = 0; g_bad_fmt = 0; g_extra = 0; g_turn_calls = 0;
    listed = !ListToNull && (ListMask & 1) && !g_iflistmask &&
             (WasIF ? (DoLst & eLstMacroExpIf) != 0 : WasMACRO ? (DoLst & eLstMacroExpMacro) != 0 : (!IfAsm && !(DoLst & eLstMacroExpIf)) ? 0 : (DoLst & eLstMacroExpRest) != 0);
    MakeList(src_buf);
    VPOST(g_bad_fmt == 0, "harness: every print format of MakeList is known to the monitor");
    if (listed) {
        VPOST(g_lines >= 1, "C19: a listed line appears in the listing");
        if (!DontPrint) {
            VPOST(g_idx == g_efflen, "C19: the listing shows all of the line's code");
            VREACH("listed");
            if (g_lines >= 2 && lg == 2 && (g_efflen & 1)) VREACH("continuation with tail byte");
        } else {
            VPOST(g_idx == 0, "C19: reserved space (DontPrint) shows no code");
            VREACH("dontprint");
        }
    } else {
        VPOST(g_lines == 0 && g_idx == 0, "C19: a line that is not listed writes nothing");
        VREACH("not listed");
    }
}
