/* C04 harness: the code-file writer of the real /repo/asmcode.c on the ghost file model */
#include "verif.h"
#include <stdio.h>
#include <stdlib.h>
#include <string.h>
#include <errno.h>
#include "stubs/gfile.c"
#include "contracts/asmcode.contracts.h"
#include "asmsub.h"
#include "asmerr.h"
#include "strutil.h"
#include "version.h"

long     g_o_lensofar, g_o_fill, g_o_recpos, g_o_lenpos, g_o_flen;
unsigned g_src, g_w_old, g_gran, gk_j;
int      g_exit_code;
static unsigned long long g_pc;
#undef errno
#define errno verif_errno

Word      Granularity(void) { return (Word)g_gran; }
LargeWord ProgCounter(void) { return (LargeWord)g_pc; }
void      ChkIO(tErrorNum ErrNo) { (void)ErrNo; if (verif_errno != 0) { g_exit_code = 2; VASSUME(0); } }
void      ChkXIO(tErrorNum ErrNo, char* pExtError) { (void)pExtError; ChkIO(ErrNo); }
static FILE* mon_fopen(void) { gf[1].pos = 0; gf[1].len = 0; gf[1].is_open = 1; return GF_FILE(1); }
#define fopen(n, m) mon_fopen()
static int mon_snprintf_creator(char* d, size_t n) { if (n >= 5) { d[0] = 'A'; d[1] = 'S'; d[2] = ' '; d[3] = 'x'; d[4] = 0; } return 4; }
#define as_snprintf(d, n, ...) mon_snprintf_creator((d), (n))

#include "asmcode.c" /* the real /repo/asmcode.c */
#undef as_snprintf
#undef fopen

/* arbitrary writer state satisfying the representation invariant */
static void mk_writer(void) {
    VND(gf[1].len, long); VND(gf[1].w_off, long); VND(gf[1].w_val, uchar);
    gf[1].is_open = 1; gf[1].fail_writes = 0; gf[1].n_write_calls = 0; gf[1].n_read_calls = 0; gf[1].bytes_written = 0; gf[1].io_error = 0;
    PrgFile = GF_FILE(1);
    CodeBuffer = malloc(CodeBufferSize + 1);
    VASSUME(CodeBuffer != NULL);
    VND(LenSoFar, ushort); VND(CodeBufferFill, ushort); VND(RecPos, int); VND(ThisRel, uchar);
    LenPos = RecPos + 8;
    VASSUME(RecPos >= 2 && RecPos <= 0x60000000);
    VASSUME(CodeBufferFill < 512 && CodeBufferFill <= LenSoFar);
    VASSUME(gf[1].len == (long)LenPos + 2 + ((long)LenSoFar - (long)CodeBufferFill));
    gf[1].pos = gf[1].len;
    VASSUME(gf[1].w_off >= 0);
    PatchList = PatchLast = NULL; ExportList = ExportLast = NULL;
#ifdef VERIF_GRAN
    g_gran = VERIF_GRAN; /* one granularity per obligation group (avoids a symbolic product) */
#else
    VND(g_gran, uint);
#endif
    VASSUME(g_gran == 1 || g_gran == 2 || g_gran == 4);
    VND(g_pc, u64);
    VND(ActPC, uchar); VASSUME(ActPC < SegCountPlusStruct);
    VND(HeaderID, uchar); VND(RelSegs, uchar); VASSUME(RelSegs <= 1);
    { int i; for (i = 0; i < SegCountPlusStruct; i++) VND(Grans[i], ushort); }
    verif_errno = 0; g_exit_code = -1;
    VND(g_err_cnt, ulong); VASSUME(g_err_cnt < 1000000);
    g_o_lensofar = LenSoFar; g_o_fill = CodeBufferFill; g_o_recpos = RecPos; g_o_lenpos = LenPos; g_o_flen = gf[1].len;
}
static void mk_code(void) {
    /* the line's code buffer is exactly as large as the line's code (the tightest buffer the
     * caller may provide: any read beyond the code is out of bounds) */
    VND(CodeLen, int);
    VASSUME(CodeLen >= 0 && (long)CodeLen * g_gran <= 65535);
#ifdef VERIF_MAXLINE
    VASSUME((long)CodeLen * g_gran <= VERIF_MAXLINE);
#endif
    MaxCodeLen = (LongWord)CodeLen * g_gran;
    if (MaxCodeLen < 4) MaxCodeLen = 4;
    BAsmCode = malloc(MaxCodeLen);
    VASSUME(BAsmCode != NULL);
    WAsmCode = (Word*)BAsmCode; DAsmCode = (LongWord*)BAsmCode;
    TurnWords = False;
    ActListGran = 1;
}
/* logical byte at absolute file offset off (file or still in the buffer) */
#define LBYTE(off) (((off) < gf[1].len) ? gf[1].w_val : CodeBuffer[(off) - gf[1].len])

/* WriteBytes, the line fits into the open record: witness = byte j of the line's code */
void h_WriteBytes_fit_new(void) {
    long n, off; unsigned char src;
    mk_writer(); mk_code();
    n = (long)CodeLen * g_gran;
    VASSUME((long)LenSoFar + n <= 0xffff);
    VND(gk_j, uint);
    VASSUME((long)gk_j < n);
    src = BAsmCode[gk_j];
    off = (long)LenPos + 2 + (long)LenSoFar + gk_j; /* where payload byte LenSoFar+j belongs */
    gf[1].w_off = off;
    WriteBytes();
    VPOST(WR_INV, "C04: WriteBytes keeps the writer invariant (buffer below 512, lengths and file position consistent)");
    VPOST(LenSoFar == g_o_lensofar + n && RecPos == g_o_recpos && LenPos == g_o_lenpos, "C04: the open record grows by the line's byte count");
    VPOST(LBYTE(off) == src, "C04: byte j of the line is payload byte LenSoFar+j of the record");
    VPOST(BAsmCode[gk_j] == src, "C04: WriteBytes leaves the line's code buffer as it was");
    VREACH("end");
}
/* ... and an earlier payload byte q is untouched */
void h_WriteBytes_fit_old(void) {
    long n, off, q; unsigned char old;
    mk_writer(); mk_code();
    n = (long)CodeLen * g_gran;
    VASSUME((long)LenSoFar + n <= 0xffff);
    VND(q, long);
    VASSUME(q >= 0 && q < (long)LenSoFar);
    off = (long)LenPos + 2 + q;
    gf[1].w_off = off;
    old = LBYTE(off);
    WriteBytes();
    VPOST(LBYTE(off) == old, "C04: WriteBytes changes no earlier payload byte");
    VREACH("end");
}
/* file header part before the payload is untouched as well */
void h_WriteBytes_fit_hdr(void) {
    long n; unsigned char old;
    mk_writer(); mk_code();
    n = (long)CodeLen * g_gran;
    VASSUME((long)LenSoFar + n <= 0xffff);
    VASSUME(gf[1].w_off < (long)LenPos + 2);
    old = gf[1].w_val;
    WriteBytes();
    VPOST(gf[1].w_val == old, "C04: WriteBytes does not touch headers or earlier records");
    VREACH("end");
}
