/* gfile_small.c -- bounded stdio model with CONCRETE (symbolic-content) small files: up to two files of at most
 * GS_MAX bytes each, every byte stored.  Used only by the bounded stand-ins (whole-file facts such as checksums
 * that the one-witness-byte model of gfile.c cannot express).  Loops are plain loops: harnesses using this model
 * are decided by unwinding, never by loop contracts, and are labelled bounded. */
#include "verif.h"
#include <stdio.h>
#include <string.h>
#ifndef GS_MAX
#define GS_MAX 16
#endif
typedef struct { unsigned char data[GS_MAX]; long len, pos; int is_open; int fail; unsigned long n_write_calls, n_read_calls; } gsfile_t;
gsfile_t gs[2];
int      verif_errno;
#define GS_FILE(i) ((FILE*)&gs[i])
static gsfile_t* gs_of(FILE* f) {
    if (f == GS_FILE(0)) return &gs[0];
    VASSERT(f == GS_FILE(1), "gfile_small: stdio call on an unknown FILE*");
    return &gs[1];
}
size_t fread(void* ptr, size_t size, size_t nmemb, FILE* f) {
    gsfile_t* g = gs_of(f); size_t total = size * nmemb, i, avail = (g->len > g->pos) ? (size_t)(g->len - g->pos) : 0, n = total < avail ? total : avail;
    g->n_read_calls++;
    for (i = 0; i < n && i < GS_MAX; i++) ((unsigned char*)ptr)[i] = g->data[g->pos + (long)i];
    g->pos += (long)n;
    return size ? n / size : 0;
}
size_t fwrite(const void* ptr, size_t size, size_t nmemb, FILE* f) {
    gsfile_t* g = gs_of(f); size_t total = size * nmemb, i;
    g->n_write_calls++;
    if (g->fail) { VND(verif_errno, int); VASSUME(verif_errno > 0 && verif_errno < 200); return 0; }
    VASSERT(g->pos >= 0 && g->pos + (long)total <= GS_MAX, "gfile_small: file grows beyond the bound of this model (harness must bound the sizes)");
    for (i = 0; i < total && i < GS_MAX; i++) g->data[g->pos + (long)i] = ((const unsigned char*)ptr)[i];
    g->pos += (long)total;
    if (g->pos > g->len) g->len = g->pos;
    return nmemb;
}
int fseek(FILE* f, long off, int whence) {
    gsfile_t* g = gs_of(f); long base = (whence == SEEK_SET) ? 0 : (whence == SEEK_CUR) ? g->pos : g->len, np = base + off;
    if (np < 0) { verif_errno = 22; return -1; }
    g->pos = np;
    return 0;
}
long ftell(FILE* f) { return gs_of(f)->pos; }
void rewind(FILE* f) { gs_of(f)->pos = 0; }
int  fflush(FILE* f) { (void)f; return 0; }
int  fclose(FILE* f) { gs_of(f)->is_open = 0; return 0; }
int  feof(FILE* f) { gsfile_t* g = gs_of(f); return g->pos >= g->len; }
int  fgetc(FILE* f) { unsigned char c; return (fread(&c, 1, 1, f) == 1) ? (int)c : EOF; }
int  fputc(int c, FILE* f) { unsigned char b = (unsigned char)c; return (fwrite(&b, 1, 1, f) == 1) ? (int)b : EOF; }
