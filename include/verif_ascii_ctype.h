/* verif_ascii_ctype.h -- force-included for linked real translation units whose text handling must run
 * concretely under symbolic execution: glibc's <ctype.h> classifies through a locale table (__ctype_b_loc),
 * which CBMC treats as unknown memory; the "C" locale answers are substituted. */
#ifndef VERIF_ASCII_CTYPE_H
#define VERIF_ASCII_CTYPE_H
#include <ctype.h>
#undef isspace
#undef isdigit
#undef isalpha
#undef isalnum
#undef isupper
#undef islower
#define isspace(c) ((c) == ' ' || ((c) >= '\t' && (c) <= '\r'))
#define isdigit(c) ((c) >= '0' && (c) <= '9')
#define isupper(c) ((c) >= 'A' && (c) <= 'Z')
#define islower(c) ((c) >= 'a' && (c) <= 'z')
#define isalpha(c) (isupper(c) || islower(c))
#define isalnum(c) (isalpha(c) || isdigit(c))
#endif
