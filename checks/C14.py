"""C14 -- machine instructions encode as the instruction set defines (shared range-rejection path only)"""
from vdriver import G
LEVEL = "other"
SRC = "harness/C13/h_asmpars_sym.c"
GROUPS = []
for e, fns, uw in [("IntTypeDefs", ["asmpars_init", "RangeCheck"], 70), ("EvalStrInt_range", ["EvalStrIntExpressionWithResult", "RangeCheck", "asmpars_init"], 70)]:
    GROUPS.append(G("rng_" + e, SRC, "h_" + e, enforce=[], link=["asmdef.c", "tempresult.c", "nonzstring.c", "bpemu.c"], stubs=["stubs/gerr.c"],
                    unwind=uw, timeout=600, dfcc=False, object_bits=12, defs=["-DSTRINGSIZE=64"], functions=fns,
                    replace_calls=["EvalStrExpression:verif_EvalStrExpression"]))
H4 = "harness/C14/h_code4004.c"
for e, fns, uw, bd in [("table", ["InitFields"], 100, None),
                       ("DecodeFixed", ["DecodeFixed"], 8, None),
                       ("DecodeOneReg", ["DecodeOneReg", "DecodeReg", "DecodeRegCore", "RegVal"], 10, "operand text of at most 6 characters"),
                       ("DecodeOneRReg", ["DecodeOneRReg", "DecodeRReg", "DecodeRRegCore", "DecodeRegCore", "RegVal"], 10, "operand text of at most 6 characters"),
                       ("DecodeImm4", ["DecodeImm4"], 8, None), ("DecodeFullJmp", ["DecodeFullJmp"], 8, None),
                       ("DecodeISZ", ["DecodeISZ", "DecodeReg"], 10, "register operand text of at most 6 characters"),
                       ("DecodeJCN", ["DecodeJCN"], 10, "condition text of at most 4 characters"),
                       ("DecodeFIM", ["DecodeFIM", "DecodeRReg"], 10, "pair operand text of at most 4 characters")]:
    GROUPS.append(G("i4004_" + e, H4, "h_" + e, enforce=[], link=["bpemu.c"], stubs=["stubs/gerr.c"], unwind=uw, timeout=600, dfcc=False, drop_unused=True,
                    object_bits=12, defs=["-DSTRINGSIZE=64"], functions=fns, bounded=bd))
HP = "harness/C14/h_code16c8x.c"
for e, fns, uw in [("table", ["InitFields"], 70), ("DecodeFixed", ["DecodeFixed"], 8), ("DecodeLit", ["DecodeLit"], 8), ("DecodeAri", ["DecodeAri", "EvalFExpression"], 10),
                   ("DecodeBit", ["DecodeBit", "EvalFExpression"], 8), ("DecodeF", ["DecodeF", "EvalFExpression"], 8), ("DecodeJump", ["DecodeJump"], 8)]:
    GROUPS.append(G("pic16_" + e, HP, "h_" + e, enforce=[], link=["bpemu.c"], stubs=["stubs/gerr.c"], unwind=uw, timeout=600, dfcc=False, drop_unused=True,
                    object_bits=12, defs=["-DSTRINGSIZE=64"], functions=fns))
H85 = "harness/C14/h_code85.c"
for e, fns, uw in [("table_8080", ["InitFields"], 170), ("table_8085", ["InitFields"], 170), ("table_8085U", ["InitFields"], 170), ("DecodeFixed", ["DecodeFixed"], 10), ("DecodeOp16", ["DecodeOp16"], 10), ("DecodeOp8", ["DecodeOp8"], 10), ("DecodeALU", ["DecodeALU", "DecodeReg8"], 12),
                   ("DecodeMOV", ["DecodeMOV", "DecodeReg8"], 12), ("DecodeMVI", ["DecodeMVI", "DecodeReg8"], 12), ("DecodeLXI", ["DecodeLXI", "DecodeReg16"], 12),
                   ("DecodeLDAX_STAX", ["DecodeLDAX_STAX", "DecodeReg16"], 12), ("DecodePUSH_POP", ["DecodePUSH_POP", "DecodeReg16"], 12), ("DecodeINR_DCR", ["DecodeINR_DCR", "DecodeReg8"], 12),
                   ("DecodeINX_DCX_DAD", ["DecodeINX_DCX", "DecodeDAD", "DecodeReg16"], 12), ("DecodeRST", ["DecodeRST"], 10)]:
    GROUPS.append(G("i8080_" + e, H85, "h_" + (e if not e.startswith("table") else "table"), enforce=[], link=["bpemu.c"], stubs=["stubs/gerr.c"], unwind=uw, timeout=600, dfcc=False, drop_unused=True,
                    object_bits=12, defs=["-DSTRINGSIZE=64"] + (["-DVERIF_CPULVL=%d" % ["table_8080", "table_8085", "table_8085U"].index(e)] if e.startswith("table") else []), functions=fns, bounded=None if e in ("table_8080", "table_8085", "table_8085U", "DecodeFixed", "DecodeOp16", "DecodeOp8", "DecodeRST") else "operand texts of at most 3 characters (register names are at most 3 long)"))
TRUSTED_BASE = ["formula parser replaced by an oracle returning an arbitrary integer and flags (goto-instrument --replace-calls)",
                "code4004 harness: formula evaluator = oracle constrained by its contract (OK => value within the requested integer type; that contract is the obligation rng_EvalStrInt_range), register-alias lookup = oracle, instruction hash table = logging stub",
                "the reference 4004/4040 opcode table in harness/C14/h_code4004.c was written from the Intel MCS-4 / MCS-40 documentation, the PIC16C8x table in h_code16c8x.c from the Microchip data sheet"]
ASSUMPTIONS = ["each code generator passes the integer type of its field to EvalStrIntExpression (checked for the 4004 handlers only)"]
NOT_COVERED = ["every instruction handler of code65.c, codez80.c, codemsp.c, codeavr.c (opcode/operand encodings) -- four of the seven ISAs named in the property", "8080/8085: the Z80-syntax handlers of code85.c (LD, EX, ADD/ADC/SUB, JP, CALL, RET, IN/OUT ...), the shared mnemonics ADD/ADC/SUB/RLC/IN/OUT/CALL/RET/JP/CP in Intel syntax, DSUB/LHLX/SHLX, PORT", "PIC16C8x: TRIS, BANKSEL, ZERO, DATA/RES, SFR pseudo instructions",
               "4004: DATA/DS pseudo instructions, register symbols defined with REG"]
EXPLANATION = ("Decided: (1) the shared half of the property for every target: an operand value outside the range of the integer type its field is evaluated with is rejected with an "
               "error (never silently truncated), a fitting value is passed on unchanged, the type table holds the documented ranges; (2) for the Intel 4004/4040 the whole code "
               "generator: the instruction table against an independent opcode table, and every operand form (register and register-pair syntax, 4-bit and 8-bit immediates, 12-bit "
               "jump targets, page rule of ISZ/JCN) against the manufacturer's encoding. (3) for the PIC16C8x the instruction table against an independent table of the 14-bit opcodes and DecodeFixed/Lit/Ari/Bit/F/Jump (destination bit, 7-bit file address within the bank, 3-bit bit number, 8-bit literal, 11-bit target with the PCLATH page bits set first when the target lies in another 2K page, targets outside the program memory rejected). (4) for the 8080/8085 in Intel syntax: the instruction table (per CPU level) against an independent opcode table for the no-operand, 16-bit-address, 8-bit-immediate and accumulator-group instructions, and the handlers DecodeFixed/Op16/Op8/ALU/MOV/MVI/LXI/LDAX_STAX/PUSH_POP/INR_DCR/INX_DCX/DAD/RST. The other four instruction sets named in the property are not under contract.")
MANIFEST = dict(
    category="other",
    text="(1) Shared range-rejection path for all targets: integer type table built by asmpars_init and the tail of EvalStrIntExpressionWithResult (fits => unchanged, outside => "
         "error and -1, first-pass placeholders masked) verified on the real code with the formula parser replaced by an oracle. (2) Intel 4004/4040 (code4004.c) completely: every "
         "documented mnemonic is in the instruction table with its documented opcode, operand form and minimum CPU (independent reference table); DecodeFixed/OneReg/OneRReg/AccReg "
         "path/Imm4/FullJmp/ISZ/JCN/FIM produce exactly the manufacturer's bytes for every operand (register names R0..RF/R00..R15, pairs RnP and R<2n>R<2n+1>, immediates through "
         "the 4-/8-/12-bit types), reject everything else with an error and no code, and apply the next-instruction page rule to ISZ and JCN. The other six ISAs named in the property "
         "are NOT covered. (3) PIC16C8x (code16c8x.c): instruction table against an independent reference, and every machine-instruction handler (fixed, literal, byte-oriented with destination, bit-oriented, CLRF/MOVWF, CALL/GOTO with page handling) for every operand value. (4) 8080/8085, Intel syntax (code85.c): table per CPU level against an independent reference and the Intel-syntax handlers (register names B C D E H L M A / B D H SP PSW, 8-bit and 16-bit operands low byte first, RST vector).",
    note="Operand texts are bounded to 6 characters (register parsers are loop-bounded by the syntax itself). Trusted: evaluator and alias oracles, the reference opcode table. One defect "
         "found and repaired (ISZ page rule).",
)
