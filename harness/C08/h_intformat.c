/* C08 harness: which integer notations are active (real /repo/intformat.c).  The manual: every target has its native
 * notations; RELAXED ON additionally enables all others; INTSYNTAX adds/removes single notations.  The abstract state is
 * (native mask, other mask, relaxed flag); the parser walks IntFormatList, so the list has to hold exactly the notations
 * of native | (relaxed ? other : 0), in the priority order of the master table. */
#include "verif.h"
#include <stdio.h>
#include <stdlib.h>
#include <string.h>
#include "stdinc.h"
#include "intformat.h"
#include "strutil.h"

#include "intformat.c" /* the real /repo/intformat.c */

#define ALLBITS 0x1fffeul /* ids 1..16 */
static int active(unsigned id) { int i; for (i = 0; i < 18 && IntFormatList[i].Check; i++) if (IntFormatList[i].Id == id) return 1; return 0; }
static int ordered(void) {      /* entries appear in the order of the master table, each at most once */
    int i, j = 0;
    for (i = 0; i < 18 && IntFormatList[i].Check; i++) {
        while (j < 17 && IntFormatList_All[j].Check && IntFormatList_All[j].Id != IntFormatList[i].Id) j++;
        if (j >= 17 || !IntFormatList_All[j].Check) return 0;
        if (IntFormatList[i].Check != IntFormatList_All[j].Check || IntFormatList[i].Base != IntFormatList_All[j].Base || IntFormatList[i].Ch != IntFormatList_All[j].Ch) return 0;
        j++;
    }
    return 1;
}
static void mk_state(void) {
    VND(NativeIntConstModeMask, uint); VND(OtherIntConstModeMask, uint); VND(RelaxedMode, uchar);
    VASSUME((NativeIntConstModeMask & ~ALLBITS) == 0 && (OtherIntConstModeMask & ~ALLBITS) == 0 && RelaxedMode <= 1);
    IntFormatList = NULL;
}

/* INTSYNTAX: (native & ~remove) | add; refused when 0oct and 0hex would both be on */
void h_ModifyIntConstModeByMask(void) {
    LongWord a, o, n0, want; unsigned k; Boolean r;
    mk_state();
    SetIntConstModeByMask(NativeIntConstModeMask | (RelaxedMode ? OtherIntConstModeMask : 0)); /* the list as the previous statement left it */
    VND(a, uint); VND(o, uint); VASSUME((a & ~ALLBITS) == 0 && (o & ~ALLBITS) == 0);
    VND(k, uint); VASSUME(k >= 1 && k <= 16);
    n0 = NativeIntConstModeMask; want = (n0 & ~a) | o;
    r = ModifyIntConstModeByMask(a, o);
    if ((want & BadMask) == BadMask) {
        VPOST(!r && NativeIntConstModeMask == n0 && active(k) == (int)(((n0 | (RelaxedMode ? OtherIntConstModeMask : 0)) >> k) & 1), "C08: INTSYNTAX enabling both 0oct and 0hex is refused and changes nothing");
        VREACH("refused");
    } else {
        VPOST(r && NativeIntConstModeMask == want, "C08: INTSYNTAX adds and removes the named notations");
        VPOST(active(k) == (int)(((want | (RelaxedMode ? OtherIntConstModeMask : 0)) >> k) & 1), "C08: after INTSYNTAX a notation is active iff it is native now, or relaxed mode is on and it belongs to another family");
        VPOST(ordered(), "C08: the active notations keep the priority order of the master table");
        VREACH("accepted");
        if (RelaxedMode && ((OtherIntConstModeMask & ~want) >> k) & 1) VREACH("relaxed-only notation");
    }
}

/* RELAXED ON/OFF */
void h_SetIntConstRelaxedMode(void) {
    Boolean nr; unsigned k;
    mk_state();
    VND(nr, uchar); VASSUME(nr <= 1); VND(k, uint); VASSUME(k >= 1 && k <= 16);
    SetIntConstRelaxedMode(nr);
    VPOST(active(k) == (int)(((NativeIntConstModeMask | (nr ? OtherIntConstModeMask : 0)) >> k) & 1), "C08: RELAXED ON enables the notations of the other families, OFF leaves the native ones");
    VPOST(ordered(), "C08: the active notations keep the priority order of the master table");
    VREACH("end");
}

/* CPU switch: the family's notations + default radix are native, all other families 'other' */
void h_SetIntConstMode(void) {
    int m; unsigned k; LongWord fam, all = eIntFormatMaskC | eIntFormatMaskIntel | eIntFormatMaskMoto | eIntFormatMaskIBM;
    mk_state();
    VND(m, int); VASSUME(m == eIntConstModeC || m == eIntConstModeIntel || m == eIntConstModeMoto || m == eIntConstModeIBM);
    VND(k, uint); VASSUME(k >= 1 && k <= 16);
    fam = (m == eIntConstModeC) ? eIntFormatMaskC : (m == eIntConstModeIntel) ? eIntFormatMaskIntel : (m == eIntConstModeMoto) ? eIntFormatMaskMoto : eIntFormatMaskIBM;
    SetIntConstMode((tIntConstMode)m);
    VPOST(NativeIntConstModeMask == (fam | (1ul << eIntFormatDefRadix)) && OtherIntConstModeMask == (all & ~fam), "C08: a target's native notations are its family's plus plain numbers; the other three families are 'other'");
    VPOST(active(k) == (int)(((NativeIntConstModeMask | (RelaxedMode ? OtherIntConstModeMask : 0)) >> k) & 1), "C08: after a CPU switch a notation is active iff native, or relaxed and of another family");
    VPOST(ordered(), "C08: the active notations keep the priority order of the master table");
    VREACH("end");
}
