/* Loop contracts for /repo/pbind.c (C07).  Ghost constants set by the harness:
 *   g_src_pay0 / g_tgt_pay0  offsets at which the record's payload starts in source / target
 *   g_paylen                 payload length of the record being copied */
#ifndef PBIND_CONTRACTS_H
#define PBIND_CONTRACTS_H
#include "stubs/gfile.h"
extern long g_src_pay0, g_tgt_pay0, g_paylen, g_src_woff, g_tgt_woff, g_src_len;
extern unsigned char g_src_wval;
extern int  g_exit_code;

#include "toolutils.h"
extern int g_doit;
/* copy loop: what has been copied so far is in the target, byte for byte (witness) */
#define VERIF_LOOP_pbind_copy                                                                   \
    __CPROVER_assigns(InpLen, TransLen, gf_cell_addr, gf_cell_val, gf_cell_valid, gf[0].pos, gf[0].n_read_calls, gf[0].io_error, \
                      gf[1].pos, gf[1].len, gf[1].w_val, gf[1].n_write_calls, gf[1].bytes_written, gf[1].io_error, verif_errno) \
    /* what was written before the payload (header, address, length) stays */              \
    __CPROVER_loop_invariant(gf[1].w_off >= g_tgt_pay0 || gf[1].w_val == __CPROVER_loop_entry(gf[1].w_val)) \
    __CPROVER_loop_invariant((long)InpLen <= g_paylen)                                           \
    __CPROVER_loop_invariant(gf[0].pos == g_src_pay0 + g_paylen - (long)InpLen)                  \
    __CPROVER_loop_invariant(gf[1].pos == g_tgt_pay0 + g_paylen - (long)InpLen && gf[1].len == gf[1].pos) \
    __CPROVER_loop_invariant(!(gf[1].w_off >= g_tgt_pay0 && gf[1].w_off < gf[1].pos &&          \
                               gf[0].w_off - g_src_pay0 == gf[1].w_off - g_tgt_pay0) || gf[1].w_val == gf[0].w_val) \
    __CPROVER_decreases(InpLen)
/* record loop: unwound in the bounded groups */
#define VERIF_LOOP_pbind_rec
#endif
