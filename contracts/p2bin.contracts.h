/* Loop contracts for /repo/p2bin.c (C05).  Ghost constants set by the harness:
 *   g_src0 / g_tgt0  file offsets at which the copied part starts in source / target
 *   g_cplen          number of bytes to copy (all lanes: -m ALL) */
#ifndef P2BIN_CONTRACTS_H
#define P2BIN_CONTRACTS_H
#include "stubs/gfile.h"
extern long g_src0, g_tgt0, g_cplen, g_src_end, g_tgt_end;
extern int  g_wmatch;

/* copy loop (byte mode ALL): what has been copied is in the target, byte for byte (witness).
 * g_src_end / g_tgt_end = g_src0 / g_tgt0 + g_cplen and g_wmatch = "the two witness offsets denote the same byte of
 * the copied part" are computed once by the harness, so that the step obligation is free of the window arithmetic. */
#define VERIF_LOOP_p2bin_copy                                                                   \
    __CPROVER_assigns(ErgLen, TransLen, ResLen, ErgStart, SumLen, gf_cell_addr, gf_cell_val, gf_cell_valid, gf[0].pos, gf[0].n_read_calls, gf[0].io_error, \
                      gf[1].pos, gf[1].len, gf[1].w_val, gf[1].n_write_calls, gf[1].bytes_written, gf[1].io_error, verif_errno) \
    __CPROVER_loop_invariant((long)ErgLen <= g_cplen)                                            \
    __CPROVER_loop_invariant(gf[0].pos == g_src_end - (long)ErgLen)                              \
    __CPROVER_loop_invariant(gf[1].pos == g_tgt_end - (long)ErgLen)                              \
    __CPROVER_loop_invariant(gf[1].len == __CPROVER_loop_entry(gf[1].len) || (gf[1].len == gf[1].pos && gf[1].pos > __CPROVER_loop_entry(gf[1].len))) \
    /* bytes of the target outside the part written so far keep their value */                   \
    __CPROVER_loop_invariant((gf[1].w_off >= g_tgt0 && gf[1].w_off < gf[1].pos) || gf[1].w_val == __CPROVER_loop_entry(gf[1].w_val)) \
    __CPROVER_loop_invariant(!(gf[1].w_off >= g_tgt0 && gf[1].w_off < gf[1].pos && g_wmatch) || gf[1].w_val == gf[0].w_val) \
    __CPROVER_decreases(ErgLen)
/* lane-selection loop inside the copy loop (-m EVEN/ODD/BYTEn/WORDn): compaction in the transfer
 * buffer; here only its frame and bounds (it is not entered in byte mode ALL) */
#define VERIF_LOOP_p2bin_lane                                                                   \
    __CPROVER_assigns(Addr, ResLen, __CPROVER_object_whole(Buffer))                              \
    __CPROVER_loop_invariant(Addr <= (LongWord)TransLen && (LongWord)ResLen <= Addr)             \
    __CPROVER_decreases((LongWord)TransLen - Addr)

/* fill loop of OpenTarget: the image is created as header + RealFileLen fill bytes */
extern long g_hdr;
#define VERIF_LOOP_p2bin_fill                                                                   \
    __CPROVER_assigns(Rest, Trans, gf[1].pos, gf[1].len, gf[1].w_val, gf[1].n_write_calls, gf[1].bytes_written, gf[1].io_error, verif_errno) \
    __CPROVER_loop_invariant(Rest <= RealFileLen)                                                \
    __CPROVER_loop_invariant(gf[1].pos == g_hdr + (long)RealFileLen - (long)Rest && gf[1].len == gf[1].pos) \
    __CPROVER_loop_invariant(gf[1].w_off >= g_hdr || gf[1].w_val == __CPROVER_loop_entry(gf[1].w_val)) \
    __CPROVER_loop_invariant(!(gf[1].w_off >= g_hdr && gf[1].w_off < gf[1].pos) || gf[1].w_val == FillVal) \
    __CPROVER_decreases(Rest)

/* ---- function contract: SelectedCount (number of byte addresses in [Start, Start+Len) kept by the -m selection) ----
 * closed form per mode, independent of the code's counting loop */
#include "datatypes.h"
static Byte     SizeDiv;
static LongWord ANDMask, ANDEq;
#define P2BIN_MODE_OK ((SizeDiv == 1 && ANDMask == 0 && ANDEq == 0) || (SizeDiv == 2 && ANDMask == 1 && ANDEq <= 1) || \
                       (SizeDiv == 4 && ANDMask == 3 && ANDEq <= 3) || (SizeDiv == 2 && ANDMask == 2 && (ANDEq == 0 || ANDEq == 2)))
#define SPEC_CL(r) ((r) > ANDEq ? ((r) - ANDEq > 2 ? 2 : (r) - ANDEq) : 0)
#define SPEC_BELOW(n) (ANDMask == 0 ? (LongWord)(n) : ANDMask == 1 ? (((LongWord)(n) + 1 - ANDEq) >> 1) : ANDMask == 3 ? (((LongWord)(n) + 3 - ANDEq) >> 2) \
                       : (2 * ((LongWord)(n) >> 2) + SPEC_CL((LongWord)(n) & 3)))
static LongWord SelectedCount(LongWord Start, LongWord Len)
    __CPROVER_requires(P2BIN_MODE_OK && Len <= 0xfffffff8u)
    __CPROVER_ensures(__CPROVER_return_value == (LongWord)(SPEC_BELOW((Start & 3) + Len) - SPEC_BELOW(Start & 3)))
    __CPROVER_assigns();
#endif
