/* C01 harness: label entry followed by the padding fix-up (asmlabel.c), against the proven
 * contract of the symbol table (SymbolAdder, see harness/C13): re-entering a constant whose
 * value differs from the value carried over from the previous pass requests another pass. */
#include "verif.h"
#include <stdio.h>
#include <string.h>
#include "stdinc.h"
#include "asmdef.h"
#include "asmsub.h"
#include "asmpars.h"
#include "asmstructs.h"
#include "asmlabel.h"
#include "stubs/gerr.h"

/* the symbol table as specified by SymbolAdder's contract (one label) */
static long long g_prev;     /* value carried over from the previous pass */
static long long g_cur;      /* value stored now */
static int       g_entered;
static int       g_sym_obj;  /* the entry object (opaque) */
struct sSymbolEntry* EnterIntSymbolWithFlags(tStrComp const* pName, LargeInt Wert, as_addrspace_t addrspace, Boolean MayChange, tSymbolFlags Flags) {
    (void)pName; (void)addrspace; (void)MayChange; (void)Flags;
    g_entered++;
    if ((long long)Wert != g_prev) Repass = True; /* SymbolAdder: "a constant whose value differs ... requests another pass" */
    g_cur = (long long)Wert;
    return (struct sSymbolEntry*)&g_sym_obj;
}
void ChangeSymbol(struct sSymbolEntry* pEntry, LargeInt Value) { (void)pEntry; g_cur = (long long)Value; }
void PushLocHandle(LongInt NewLoc) { (void)NewLoc; }
void PopLocHandle(void) {}

#include "contracts/loop_defaults.h"
#include "asmlabel.c" /* the real /repo/asmlabel.c */

/* a label placed before a padded data statement: entered with the unpadded address v0, then
 * moved behind the padding (v1).  If v1 is the value the label had in the previous pass, the
 * layout is at its fixpoint and no further pass may be requested. */
void h_label_fixup(void) {
    static tStrComp name; static char nm[2]; unsigned long long v0, v1; Boolean rp0;
    nm[0] = 'L'; nm[1] = 0; name.str.p_str = nm;
    pInnermostNamedStruct = NULL; RelSegs = False; AfterBSRAddr = 0;
    VND(v0, u64); VND(v1, u64); VND(g_prev, i64);
    VND(Repass, uchar); VASSUME(Repass <= 1);
    ActPC = SegCode;
#ifdef VERIF_EXCLUDE_C01_PAD_LIVELOCK
    VASSUME(v0 == v1);
#endif
#ifdef VERIF_ONLY_C01_PAD_LIVELOCK
    VASSUME(v0 != v1);
#endif
    g_entered = 0; rp0 = Repass;
    LabelHandle(&name, v0, False);
    LabelModify(v0, v1);
    VPOST(g_entered == 1 && g_cur == (long long)v1, "C01: after the fix-up the label holds the address behind the padding");
    VPOST((long long)v1 != g_prev || Repass == rp0, "C01: a label whose final value equals its value of the previous pass does not request another pass");
    VPOST((long long)v1 == g_prev || Repass, "C01: a label whose final value differs from the previous pass requests another pass");
    VREACH("end");
}
