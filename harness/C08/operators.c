/* C08 harness: every operator body of the real /repo/operator.c under its contract.
 * The contract is enforced by goto-instrument --dfcc --enforce-contract <Op>;
 * the VPOST line repeats the value clause so that the native replay can re-check it. */
#include "verif.h"
#include "contracts/operator.contracts.h"

unsigned gk_bit;
long long g_x_i;
double    g_x_f;

/* libm's pow is outside CBMC's reach: ghost stub that records its arguments */
double g_pow_a, g_pow_b, g_pow_ret;
unsigned g_pow_calls;
#ifdef VERIF_CBMC
#define pow verif_pow
static double verif_pow(double a, double b) {
    g_pow_a = a;
    g_pow_b = b;
    g_pow_calls++;
    return g_pow_ret;
}
#endif

#include "operator.c" /* resolves to /repo/operator.c via -I */

static void mk_operands(TempResult* e, TempResult* l, TempResult* r, int want_float) {
    as_tempres_ini(e);
    as_tempres_ini(l);
    as_tempres_ini(r);
    VND(e->Flags, uint);
    VND(e->AddrSpaceMask, uint);
    VND(l->Flags, uint);
    VND(l->AddrSpaceMask, uint);
    VND(l->DataSize, int);
    VND(r->Flags, uint);
    VND(r->AddrSpaceMask, uint);
    VND(r->DataSize, int);
    if (want_float) {
        l->Typ = TempFloat;
        r->Typ = TempFloat;
        VND(l->Contents.Float, double);
        VND(r->Contents.Float, double);
    } else {
        l->Typ = TempInt;
        r->Typ = TempInt;
        VND(l->Contents.Int, i64);
        VND(r->Contents.Int, i64);
    }
    VND(g_err_cnt, ulong);
    VASSUME(g_err_cnt < 1000000);
    g_err_last = 0;
    VND(gk_bit, uint);
    VASSUME(gk_bit < 64);
}

#ifdef VERIF_OPT_FLOAT
#    define WANT_FLOAT 1
#else
#    define WANT_FLOAT 0
#endif

#ifndef SAME_F
#define SAME_F(a, b) (((a) == (b)) || (((a) != (a)) && ((b) != (b))))
#endif

#define H_BEGIN(fl)                     \
    TempResult    e, l, r;              \
    long long     li, ri;               \
    double        lf, rf;               \
    unsigned long ec;                   \
    mk_operands(&e, &l, &r, fl);        \
    li = l.Contents.Int;                \
    ri = r.Contents.Int;                \
    lf = l.Contents.Float;              \
    rf = r.Contents.Float;              \
    ec = g_err_cnt;                     \
    (void)li; (void)ri; (void)lf; (void)rf; (void)ec;

/* the expected value is computed BEFORE the call, over the same SSA symbols the
 * body reads (see the note in the contract header) */
#define H_INT(name, pre, expect)                                              \
    void h_##name(void) {                                                     \
        long long x;                                                          \
        H_BEGIN(0)                                                            \
        VASSUME(pre);                                                         \
        x = (expect);                                                         \
        g_x_i = x;                                                            \
        name(&e, &l, &r);                                                     \
        VPOST(e.Typ == TempInt && e.Contents.Int == x, "C08: " #name " value"); \
        VREACH("end");                                                        \
    }

#define H_FLT(name, pre, expect)                                              \
    void h_##name##_f(void) {                                                 \
        double x;                                                             \
        H_BEGIN(1)                                                            \
        VASSUME(pre);                                                         \
        x = (expect);                                                         \
        g_x_f = x;                                                            \
        name(&e, &l, &r);                                                     \
        VPOST(e.Typ == TempFloat && SAME_F(e.Contents.Float, x), "C08: " #name " float value"); \
        VREACH("end");                                                        \
    }

#define H_CMPF(name, op)                                                      \
    void h_##name##_f(void) {                                                 \
        long long x;                                                          \
        H_BEGIN(1)                                                            \
        x = (lf op rf) ? 1 : 0;                                               \
        name(&e, &l, &r);                                                     \
        VPOST(e.Typ == TempInt && e.Contents.Int == x, "C08: " #name " float compare"); \
        VREACH("end");                                                        \
    }

H_INT(OneComplOp, 1, ~ri)
H_INT(ShLeftOp, ri >= 0 && ri < 64, SPEC_SHL(li, ri))
#if defined(VERIF_EXCLUDE_C08_SHR_NEG)
H_INT(ShRightOp, ri >= 0 && ri < 64 && (li >= 0 || ri == 0), SPEC_SHR(li, ri))
#elif defined(VERIF_ONLY_C08_SHR_NEG)
H_INT(ShRightOp, ri > 0 && ri < 64 && li < 0, SPEC_SHR(li, ri))
#else
H_INT(ShRightOp, ri >= 0 && ri < 64, SPEC_SHR(li, ri))
#endif
H_INT(BinAndOp, 1, li & ri)
H_INT(BinOrOp, 1, li | ri)
H_INT(BinXorOp, 1, li ^ ri)
H_INT(LogNotOp, 1, (ri == 0) ? 1 : 0)
H_INT(LogAndOp, 1, ((li != 0) && (ri != 0)) ? 1 : 0)
H_INT(LogOrOp, 1, ((li != 0) || (ri != 0)) ? 1 : 0)
H_INT(LogXorOp, 1, ((li != 0) != (ri != 0)) ? 1 : 0)

#ifndef VERIF_OPT_FLOAT
H_INT(MultOp, 1, SPEC_MUL(li, ri))
H_INT(SubOp, 1, SPEC_SUB(li, ri))
H_INT(AddOp, 1, SPEC_ADD(li, ri))
H_INT(EqOp, 1, (li == ri) ? 1 : 0)
H_INT(UneqOp, 1, (li != ri) ? 1 : 0)
H_INT(GtOp, 1, (li > ri) ? 1 : 0)
H_INT(LtOp, 1, (li < ri) ? 1 : 0)
H_INT(GeOp, 1, (li >= ri) ? 1 : 0)
H_INT(LeOp, 1, (li <= ri) ? 1 : 0)
#else
H_FLT(MultOp, 1, lf* rf)
H_FLT(SubOp, 1, lf - rf)
H_FLT(AddOp, 1, lf + rf)
H_CMPF(EqOp, ==)
H_CMPF(UneqOp, !=)
H_CMPF(GtOp, >)
H_CMPF(LtOp, <)
H_CMPF(GeOp, >=)
H_CMPF(LeOp, <=)
#endif

/* operators with an error branch */
void h_BitMirrorOp(void) {
    unsigned long long xb;
    H_BEGIN(0)
    xb = (ri >= 1 && ri <= 32) ? SPEC_MIRROR_BIT(li, ri, gk_bit) : 0;
    BitMirrorOp(&e, &l, &r);
    if (ri >= 1 && ri <= 32) {
        VPOST(e.Typ == TempInt && ((U64(e.Contents.Int) >> gk_bit) & 1u) == xb,
              "C08: >< mirrors the lowest n bits, leaves the rest");
        VPOST(g_err_cnt == ec, "C08: >< no error inside 1..32");
        VREACH("in-range");
    } else {
        VPOST(e.Typ == TempNone && g_err_cnt == ec + 1, "C08: >< width outside 1..32 is an error");
        VREACH("out-of-range");
    }
}

#ifndef VERIF_OPT_FLOAT
void h_DivOp(void) {
    long long x;
    H_BEGIN(0)
    x = (ri != 0) ? SPEC_DIV(li, ri) : 0;
    g_x_i = x;
    DivOp(&e, &l, &r);
    if (ri != 0) {
        VPOST(e.Typ == TempInt && e.Contents.Int == x && g_err_cnt == ec, "C08: / truncating quotient");
        VREACH("nonzero");
    } else {
        VPOST(e.Typ == TempNone && g_err_cnt == ec + 1 && g_err_last == ErrNum_DivByZero, "C08: / by zero is an error");
        VREACH("zero");
    }
}
#else
void h_DivOp_f(void) {
    double x;
    H_BEGIN(1)
    x = lf / rf;
    g_x_f = x;
    DivOp(&e, &l, &r);
    if (rf != 0.0) {
        VPOST(e.Typ == TempFloat && SAME_F(e.Contents.Float, x) && g_err_cnt == ec, "C08: float quotient");
        VREACH("nonzero");
    } else {
        VPOST(e.Typ == TempNone && g_err_cnt == ec + 1 && g_err_last == ErrNum_DivByZero, "C08: float / by zero is an error");
        VREACH("zero");
    }
}
#endif

void h_ModOp(void) {
    long long x;
    H_BEGIN(0)
    x = (ri != 0) ? SPEC_MOD(li, ri) : 0;
    g_x_i = x;
    ModOp(&e, &l, &r);
    if (ri != 0) {
        VPOST(e.Typ == TempInt && e.Contents.Int == x && g_err_cnt == ec, "C08: # remainder");
        VREACH("nonzero");
    } else {
        VPOST(e.Typ == TempNone && g_err_cnt == ec + 1 && g_err_last == ErrNum_DivByZero, "C08: # by zero is an error");
        VREACH("zero");
    }
}

/* ---- power operator ---------------------------------------------------------------------------
 * integer: negative exponent gives 0; exponents 0..2 give the exact two's-complement power
 * (larger exponents: loop of up to 63 squarings, bounded stand-in not attempted);
 * float with negative base and integral exponent |e| <= 3: the exact repeated product. */
#ifndef VERIF_OPT_FLOAT
void h_PotOp_int(void) {
    long long x;
    H_BEGIN(0)
    VASSUME(ri <= 2);
    x = (ri < 0) ? 0 : (ri == 0) ? 1 : (ri == 1) ? li : li * li;
    PotOp(&e, &l, &r);
    VPOST(e.Typ == TempInt && e.Contents.Int == x, "C08: integer power for exponents up to 2 (negative exponent gives 0)");
    VREACH("end");
}
#else
void h_PotOp_f(void) {
    double x, b;
    H_BEGIN(1)
#ifdef VERIF_POT_EXP2
    VASSUME(lf < 0 && rf == 2.0);
#else
    VASSUME(lf < 0 && rf == 1.0);
#endif
    b = (rf < 0) ? 1 / lf : lf;
    x = (rf == 1.0 || rf == -1.0) ? b : (rf == 2.0 || rf == -2.0) ? b * b : (b * b) * b;
    PotOp(&e, &l, &r);
    VPOST(e.Typ == TempFloat && SAME_F(e.Contents.Float, x), "C08: negative base with an integral exponent: the exact repeated product");
    VREACH("end");
}
#endif

/* ---- operator table against the manual's table "Operators Predefined by AS" -------------------
 * (id, rank, number of operands, integer / float / string admitted).  The code's priorities
 * must order the operators exactly as the manual's ranks do (equal ranks <=> equal priorities);
 * evaluation of a constant table: complete by full unwinding. */
#ifndef VERIF_OPT_FLOAT
struct man_op { char const* id; int rank, nops, i, f, s; };
static const struct man_op manual[] = {
    {"<>", 14, 2, 1, 1, 1}, {">=", 14, 2, 1, 1, 1}, {"<=", 14, 2, 1, 1, 1}, {"<", 14, 2, 1, 1, 1}, {">", 14, 2, 1, 1, 1},
    {"=", 14, 2, 1, 1, 1}, {"==", 14, 2, 1, 1, 1}, {"!!", 13, 2, 1, 0, 0}, {"||", 12, 2, 1, 0, 0}, {"&&", 11, 2, 1, 0, 0},
    {"~~", 2, 1, 1, 0, 0}, {"-", 10, 2, 1, 1, 0}, {"+", 10, 2, 1, 1, 1}, {"#", 9, 2, 1, 0, 0}, {"/", 9, 2, 1, 1, 0},
    {"*", 9, 2, 1, 1, 0}, {"^", 8, 2, 1, 1, 0}, {"!", 7, 2, 1, 0, 0}, {"|", 6, 2, 1, 0, 0}, {"&", 5, 2, 1, 0, 0},
    {"><", 4, 2, 1, 0, 0}, {">>", 3, 2, 1, 0, 0}, {"<<", 3, 2, 1, 0, 0}, {"~", 1, 1, 1, 0, 0},
};
#define N_MAN ((int)(sizeof(manual) / sizeof(manual[0])))
static int str_eq(char const* a, char const* b) { int i; for (i = 0; i < 3; i++) { if (a[i] != b[i]) return 0; if (!a[i]) return 1; } return 1; }
static int find_op(char const* id) { int k; for (k = 1; k < 30 && Operators[k].Id; k++) if (str_eq(Operators[k].Id, id)) return k; return -1; }
static int admits(Operator const* op, int lt, int rt) { int z; for (z = 0; z < OPERATOR_MAXCOMB; z++) if (op->TypeCombinations[z] == (lt | (rt << 4))) return 1; return 0; }
void h_OperatorTable(void) {
    int a, b, n = 0;
    for (a = 1; a < 30 && Operators[a].Id; a++) n++;
    VPOST(n == N_MAN, "C08: the operator table holds exactly the documented operators");
    for (a = 0; a < N_MAN; a++) {
        int ka = find_op(manual[a].id);
        VPOST(ka > 0, "C08: every documented operator exists");
        VPOST(Operators[ka].IdLen == (manual[a].id[1] ? 2 : 1), "C08: operator id length");
        VPOST((Operators[ka].Dyadic != 0) == (manual[a].nops == 2), "C08: number of operands as documented");
        if (manual[a].nops == 2) {
            VPOST(admits(&Operators[ka], TempInt, TempInt) == manual[a].i, "C08: integer operands as documented");
            VPOST(admits(&Operators[ka], TempFloat, TempFloat) == manual[a].f, "C08: float operands as documented");
            VPOST(admits(&Operators[ka], TempString, TempString) == manual[a].s, "C08: string operands as documented");
        }
        for (b = 0; b < N_MAN; b++) {
            int kb = find_op(manual[b].id);
            VPOST((manual[a].rank < manual[b].rank) == (Operators[ka].Priority < Operators[kb].Priority), "C08: operator ranks order as tabulated in the manual");
        }
    }
    VREACH("end");
}
#endif
