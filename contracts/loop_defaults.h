/* loop_defaults.h -- every VERIF_LOOP(name) anchor in /repo gets an empty expansion unless the
 * harness has already defined its loop contract.  Include directly before the real .c file. */
#ifndef VERIF_LOOP_as_passloop
#define VERIF_LOOP_as_passloop
#endif
#ifndef VERIF_LOOP_asmif_ifb
#define VERIF_LOOP_asmif_ifb
#endif
#ifndef VERIF_LOOP_asmif_case
#define VERIF_LOOP_asmif_case
#endif
#ifndef VERIF_LOOP_asmif_restore
#define VERIF_LOOP_asmif_restore
#endif
#ifndef VERIF_LOOP_toolutils_filterok
#define VERIF_LOOP_toolutils_filterok
#endif
#ifndef VERIF_LOOP_pbind_rec
#define VERIF_LOOP_pbind_rec
#endif
#ifndef VERIF_LOOP_pbind_copy
#define VERIF_LOOP_pbind_copy
#endif
