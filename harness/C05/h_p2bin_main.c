/* C05 harness: call order of main() of the real /repo/p2bin.c up to the creation of the image:
 * when the target is opened, every input file has been measured, so that the image granularity (MaxGran) is the
 * largest granularity of the selected records -- for automatic AND for explicit address ranges.
 * Option parsing and initialisers are oracles; one input file with one data record; the path ends at the fopen of
 * the target (what follows is the subject of the OpenTarget / ProcessFile / CloseTarget obligations). */
#include "verif.h"
#include <stdio.h>
#include <stdlib.h>
#include <string.h>
#include <errno.h>
#include "stubs/gfile.c"
#include "contracts/loop_defaults.h"
#include "fileformat.h"
#include "addrspace.h"
#include "nlmessages.h"
#include "toolutils.h"
#include "ioerrs.h"
#include "chunks.h"
#include "nls.h"
#include "cmdarg.h"
#include "bpemu.h"
#undef errno
#define errno verif_errno
static char msg_txt[2];
char* getmessage(int Num) { (void)Num; return msg_txt; }
char* catgetmessage(PMsgCat Catalog, int Num) { (void)Catalog; (void)Num; return msg_txt; }
char* GetErrorMsg(int number) { (void)number; return msg_txt; }
void nls_init(void) {}
Boolean NLS_Initialize(int* argc, char** argv) { (void)argc; (void)argv; return True; }
void strutil_init(void) {}
void nlmessages_init(char const* File, char* ProgPath, LongInt MsgId1, LongInt MsgId2) { (void)File; (void)ProgPath; (void)MsgId1; (void)MsgId2; }
void ioerrs_init(char* ProgPath) { (void)ProgPath; }
void chunks_init(void) {}
void cmdarg_init(char* ProgPath) { (void)ProgPath; }
void opencatalog(PMsgCat Catalog, char const* File, char const* Path, LongInt File_MsgId1, LongInt File_MsgId2) { (void)Catalog; (void)File; (void)Path; (void)File_MsgId1; (void)File_MsgId2; }
void InitChunk(ChunkList* NChunk) { (void)NChunk; }
char const* GetEXEName(char const* argv0) { return argv0; }
size_t strmaxcpy(char* dest, char const* src, size_t Max) { size_t n = 0; if (!Max) return 0; while (n < 3 && src[n] && n + 1 < Max) { dest[n] = src[n]; n++; } dest[n] = 0; return n; }
void AddSuffix(char* s, unsigned Size, char const* Suff) { (void)s; (void)Size; (void)Suff; }
void DelSuffix(char* Name) { (void)Name; }
Boolean RemoveOffset(char* Name, LongWord* Offset) { (void)Name; *Offset = 0; return True; }
Boolean ProcessedEmpty(CMDProcessed Processed) { return (Boolean)!(Processed[1] || Processed[2] || Processed[3]); }
Boolean DirScan(char* Mask, charcallback callback) { callback(Mask); return True; }           /* the mask names exactly one file */
static Boolean verif_FilterOK(Byte Header) { (void)Header; return True; }
#define FilterOK(h) verif_FilterOK(h)
/* option values as the command line left them (oracle): explicit or automatic range ends */
static unsigned g_o_start, g_o_stop; static int g_o_sauto, g_o_eauto;
static int mon0(void) { return 0; }
#define fprintf(...) mon0()
#define printf(...) mon0()
#define fputs(a, b) mon0()
static int g_target_opened, g_maxgran_at_open, g_measured, g_rec_gran;
static FILE* mon_fopen(char const* mode);
#define fopen(n, m) mon_fopen(m)
#define main p2bin_main
#include "p2bin.c" /* the real /repo/p2bin.c */
#undef main
#undef fopen
#undef FilterOK
void ProcessCMD(int argc, char** argv, CMDRec const* pCMDRecs, int CMDRecCnt, CMDProcessed Unprocessed, char const* EnvName, CMDErrCallback ErrProc) {
    (void)argv; (void)pCMDRecs; (void)CMDRecCnt; (void)EnvName; (void)ErrProc; (void)argc;
    Unprocessed[0] = False; Unprocessed[1] = True; Unprocessed[2] = True; Unprocessed[3] = False;   /* source, target */
    StartAdr = g_o_start; StopAdr = g_o_stop; StartAuto = (Boolean)(g_o_sauto != 0); StopAuto = (Boolean)(g_o_eauto != 0);   /* -r */
    QuietMode = True;
}
static FILE* mon_fopen(char const* mode) {
    if (mode[0] == 'w') {
        g_target_opened = 1; g_maxgran_at_open = MaxGran;
        VASSERT(g_measured >= 1, "C05: the input files are measured before the image is created, also for an explicit -r range");
        VASSERT(MaxGran == g_rec_gran, "C05: the image granularity is the granularity of the selected records (largest seen), whatever the kind of range");
        VREACH("open");
        VASSUME(0);                                                                         /* the path under check ends here */
    }
    g_measured++;
    return GF_FILE(0);
}

void h_main_measures_first(void) {
    Byte cpu, gran; unsigned long start; unsigned len; char a0[2], a1[2], a2[2]; char* argv[4];
    gf_reset(); gf[0].pos = 0; gf[0].is_open = 1; gf_cell_mode = 1; gf_noscript_ptr = Buffer;
    VND(gf[0].len, long); VASSUME(gf[0].len >= 0 && gf[0].len <= 0x7fffffff); gf[0].w_off = 0; gf[0].w_val = 0;
    msg_txt[0] = 'm'; msg_txt[1] = 0; a0[0] = 'p'; a0[1] = 0; a1[0] = 's'; a1[1] = 0; a2[0] = 't'; a2[1] = 0; argv[0] = a0; argv[1] = a1; argv[2] = a2; argv[3] = NULL;
    VND(cpu, uchar); VND(gran, uchar); VND(start, ulong); VND(len, uint);
    VASSUME((gran == 1 || gran == 2 || gran == 4) && start <= 0xffffff && len >= gran && len <= 0xffff && (len % gran) == 0);
    VND(g_o_start, uint); VND(g_o_stop, uint); VND(g_o_sauto, int); VND(g_o_eauto, int); VASSUME(g_o_start <= g_o_stop);
    gf_script_i = 0; gf_script[0] = FileMagic; gf_script[1] = FileHeaderDataRec; gf_script[2] = cpu; gf_script[3] = SegCode; gf_script[4] = gran;
    gf_script[5] = start; gf_script[6] = len; gf_script[7] = FileHeaderEnd; gf_script_n = 8;
    VASSUME(12 + (long)len < gf[0].len - 1);
    g_target_opened = 0; g_measured = 0; g_maxgran_at_open = -1; g_rec_gran = gran;
    (void)p2bin_main(3, argv);
    /* every path that opens the target ends inside mon_fopen; reaching this point means the program returned without creating an image */
    VPOST(0, "C05: main creates the image (it does not return without opening the target in this scenario)");
}
