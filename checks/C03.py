"""C03 -- no input makes the assembler or a utility crash or hang (for the functions under contract)"""
import importlib.util, os, copy
from vdriver import G, VERIF
LEVEL = "other"

def _load(pid):
    spec = importlib.util.spec_from_file_location("c03_" + pid, os.path.join(VERIF, "checks", pid + ".py"))
    m = importlib.util.module_from_spec(spec)
    spec.loader.exec_module(m)
    return m

# Groups of the other properties whose *memory-safety, division and progress* obligations make up
# C03's claim.  The same harnesses are run; only obligations of kind "safety" (pointer, bounds,
# division by zero / overflow located in /repo code, or in the harness on data the code produced)
# and assertions named "C03: ..." are counted here.
PICK = {
    "C08": r"^(op_DivOp|op_ModOp|op_BitMirrorOp|op_ShLeftOp|fn_FuncCHARFROMSTR|fn_FuncSTRLEN|fn_FuncBITPOS|pars_SingleBit|fn_FuncSUBSTR_safe)$",
    "C12": r"^(if_CodeELSECASE|if_CodeCASE|if_CodeENDIF|if_CodeENDCASE|if_CodeIFB|if_RestoreIFs|ifs_other)$",
    "C10": r"^(pc_CodeALIGN_1|pc_CodeALIGN_2|pc_CodeDEPHASE|pc_SetNSeg)$",
    "C09": r"^(mot_Enter.*|ieee_Double_2_ieee2|ieee_Double_2_ieee10)$",
    "C07": r"^(tu_SkipRecord|tu_ReadRecordHeader|tu_ReadRecordHeader_trunc|tu_FilterOK|tu_CMD_FilterList|tu_ReadRelocInfo|pl_ProcessSingle_data_g0|pl_ProcessSingle_data_g1|pl_ProcessSingle_reloc_truncated)$",
    "C04": r"^(cf_WriteBytes_fit_new_g2|cf_WriteBytes_overflow_g2|cf_NewRecord_full|cf_CloseFile|as_WriteCode)$",
    "C02": r"^(err_WrXErrorPos|err_CodeENDEXPECT)$",
    "C13": r"^(sym_SymbolAdder|sym_FindNode|sym_ExpandStrSymbol)$",
    "C11": r"^(rep_IRP_step|rep_IRP_Cleanup_twice|rep_IRPN_count|sub_ChkNames)$",
    "C05": r"^(pb_ProcessFile_data_g2|pb_MeasureFile|pb_OpenTarget_g1_ALL)$",
    "C14": r"^(i4004_DecodeOneRReg|i4004_DecodeJCN)$",
}
import re
GROUPS = []
for pid, rx in PICK.items():
    for g in _load(pid).GROUPS:
        if re.search(rx, g.name) and not g.only_finding:
            g2 = copy.copy(g)
            g2["name"] = pid + "." + g.name
            GROUPS.append(g2)

def OBLIGATION_FILTER(o):
    return o["kind"] in ("safety", "internal-safety") or o["descr"].startswith("C03:") or "never moves backwards" in o["descr"]

TRUSTED_BASE = ["the stubs of the groups reused (see the evidence of C02, C04, C07, C08, C09, C10, C11, C12, C13)"]
ASSUMPTIONS = ["preconditions of each function are the weakest its call sites give (file contents arbitrary bytes, expression values arbitrary within type)"]
NOT_COVERED = ["whole-program robustness (parsers SplitLine/EvalStrExpression/ExpandMacro, ~100 code generators)", "p2hex.c (bounded check only, see C06), alink.c, das.c record handling",
               "termination of WHILE / recursive macros (excluded by the property)"]
EXPLANATION = ("Contracts cannot decide 'for every byte sequence the program exits normally'. Claimed: for every function under contract listed in the "
               "evidence, all executions from states satisfying its precondition are free of invalid/out-of-bounds dereference, division by zero, "
               "trapping division overflow, and (record loops) backwards movement in the input. Obligations counted are CBMC's built-in checks "
               "located in the code plus the named C03 assertions of the harnesses.")
MANIFEST = dict(
    category="other",
    text="Memory-safety/division/progress obligations of the functions under contract in the other properties' harnesses (CBMC pointer, bounds, "
         "division checks on the real code with file contents and expression values arbitrary), re-run and counted under C03. Whole-program "
         "robustness over all inputs is not decidable by per-function contracts and is not claimed.",
    note="Same trusted base as the reused groups. Confirmed and repaired crash/hang defects are listed in known_findings.json (fixed: ...).",
)
