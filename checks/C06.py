"""C06 -- P2HEX output decodes, with valid checksums, to the code file's contents (p2hex.c, bounded)"""
from vdriver import G
LEVEL = "other"
SRC = "harness/C06/h_p2hex.c"
ERRNO = ["-include", "$VERIF/include/verif_errno_shim.h"]
FORMATS = {"MotoS_min1": 1, "MotoS_min2": 1, "MotoS_min3": 1, "Intel": 2, "Intel16": 3, "Intel32": 4, "MOS": 5, "Tek": 6}
GROUPS = []
for name, num in FORMATS.items():
    GROUPS.append(G("hex_lines_" + name, SRC, "h_ProcessFile_lines", enforce=[], dfcc=False, drop_unused=True, defs=["-DVERIF_FORMAT=%d" % num] + (["-DVERIF_MINMOTO=" + name[-1], "-DVERIF_MAXLEN=4"] if num == 1 else []), tier="quick" if name != "MotoS_min2" else "thorough",
                    link=["toolutils.c", "as_endian.c", "bpemu.c"], unwind=9, unwindset=["@ProcessFile:ProcessFile:0:7", "@ProcessFile:ProcessFile:last:3", "h_ProcessFile_lines.0:22", "h_ProcessFile_lines.2:12"] + ["@line_done:line_done:%d:17" % k for k in range(6)], timeout=600, cflags=ERRNO, functions=["ProcessFile"], object_bits=12,
                    flags=["--slice-formula"], split=8,
                    bounded="one byte-granular data record of 1..6 bytes at any address the format can express, line length 1..8, with and without -a, -R (0..$10000), S5 and separate S9 records; no window clipping / multi-byte mode"))
for ll in (1, 2, 16, 32, 255):
    GROUPS.append(G("hex_S5_count_l%d" % ll, SRC, "h_ProcessFile_S5", enforce=[], dfcc=False, drop_unused=True, defs=["-DVERIF_FORMAT=1", "-DVERIF_S5ONLY", "-DVERIF_LINELEN=%d" % ll],
                    link=["toolutils.c", "as_endian.c", "bpemu.c"], unwind=9, unwindset=GROUPS[0].unwindset + ["h_ProcessFile_S5.0:22", "h_ProcessFile_S5.1:12"], timeout=600, cflags=ERRNO, functions=["ProcessFile"], object_bits=12,
                    flags=["--slice-formula"], note="record lengths 1..65535, line length %d: count and checksum of the S5 record; the path is cut after the S5 line" % ll))
GROUPS.append(G("hex_lines_Tek_finding", SRC, "h_ProcessFile_lines", enforce=[], dfcc=False, drop_unused=True, defs=["-DVERIF_FORMAT=6"],
                link=["toolutils.c", "as_endian.c", "bpemu.c"], unwind=9, unwindset=GROUPS[0].unwindset, timeout=600, cflags=ERRNO, functions=["ProcessFile"], object_bits=12,
                flags=["--slice-formula"], split=8, only_finding="C06_TEK_CHECKSUM", bounded="witness of the recorded finding C06_TEK_CHECKSUM"))
TRUSTED_BASE = ["stubs/gfile_small.c (bounded stdio model, every byte)", "fprintf monitor of h_p2hex.c (collects the hex digit groups of a line as bytes; recognises the constant format strings)",
                "FilterOK / AddChunk oracles (FilterOK under contract in C07)"]
ASSUMPTIONS = ["addresses are within the range the chosen format can express (beyond it p2hex warns and truncates, as documented)"]
NOT_COVERED = ["terminator / entry records written by main (S7-S9, :00000001FF, MOS end record with its hard-coded count 4)", "Atmel generic, C array, TI DSK, Mico8 formats",
               "relocation (-R), relative addressing (-a), window clipping (-r), 16-bit / split byte modes (-m), S5 / separate S9 records, granularity > 1",
               "default format selection per CPU family", "MeasureFile", "records longer than 6 bytes (line loop unwound)"]
EXPLANATION = ("Bounded stand-in only (no loop anchors were added to p2hex.c): the real ProcessFile is executed symbolically on every code file holding one data "
               "record of 1..6 bytes (1..4 for Motorola S) at every address the format can express, every line length 1..8; each output line is checked against the public "
               "definition of its format and decoded back to (address, byte) pairs that must reproduce the record exactly.")
MANIFEST = dict(
    category="other",
    text="Bounded check of the real p2hex.c ProcessFile for Motorola S (S1/S2/S3, all three minimum types), Intel 8/16/32 (segment and linear base records, 64 KiB bank "
         "crossing), MOS and Tektronix: for every code file with one byte-granular data record of 1..6 bytes (Motorola: 1..4) at any expressible address and every line "
         "length 1..8, each emitted line has a correct count field and checksum by the format's public definition, and decoding the lines yields exactly the record's bytes "
         "at the record's addresses, each once and in order. Loops closed by unwinding with unwinding assertions; not a proof beyond the stated bound.",
    note="Bound: record length <= 6 (4), line length <= 8, granularity 1, no -R/-a/-r/-m options. Known finding C06_TEK_CHECKSUM (Tektronix checksums are byte sums, not hex-digit sums). "
         "Not covered: terminator records written by main, Atmel/C/DSK/Mico8 formats. Trusted: stubs/gfile_small.c, the fprintf monitor.",
    technique="bounded model checking of the real p2hex.c (CBMC 6.11, --unwind with --unwinding-assertions) through a format-decoding fprintf monitor; labelled bounded, stand-in for the loop-contract proof that was not built",
)
