/* Contracts for /repo/toolutils.c (C07, C05, C06; robustness part C03).
 * File access goes through the ghost file model stubs/gfile.h (witness byte). */
#ifndef TOOLUTILS_CONTRACTS_H
#define TOOLUTILS_CONTRACTS_H
#include "stdinc.h"
#include "toolutils.h"
#include "fileformat.h"
#include "addrspace.h"
#include "stubs/gfile.h"

extern unsigned gk_idx;
extern long     g_o_pos0, g_o_pos1, g_o_len1;
extern int      g_exit_code;

#define IS_LONG_HDR(h) ((h) == FileHeaderDataRec || (h) == FileHeaderRDataRec || (h) == FileHeaderRelocRec || (h) == FileHeaderRRelocRec)

/* loop contract for the anchor VERIF_LOOP(toolutils_filterok): witness index gk_idx */
#define VERIF_LOOP_toolutils_filterok                                                      \
    __CPROVER_assigns(z)                                                                    \
    __CPROVER_loop_invariant(0 <= z && z <= FilterCnt)                                      \
    __CPROVER_loop_invariant(!(gk_idx < (unsigned)z) || FilterBytes[gk_idx] != Header)      \
    __CPROVER_decreases(FilterCnt - z)

/* CMD_FilterList search loop: Search runs up to the first entry equal to the id; entries before it differ (witness gk_idx) */
#define VERIF_LOOP_toolutils_filterlist                                                     \
    __CPROVER_assigns(Search)                                                               \
    __CPROVER_loop_invariant(0 <= Search && Search <= FilterCnt)                            \
    __CPROVER_loop_invariant(!(gk_idx < (unsigned)Search) || FilterBytes[gk_idx] != FTemp)  \
    __CPROVER_decreases(FilterCnt - Search)

#ifdef VERIF_CBMC
static Boolean DoFilter;
static int     FilterCnt;
static Byte    FilterBytes[256]; /* must repeat the definition in toolutils.c (a mismatch makes the group undecided, never a violation) */

/* FilterOK(h): no filter => everything passes; otherwise h passes iff it is in the list */
Boolean FilterOK(Byte Header)
    __CPROVER_requires(FilterCnt >= 0 && FilterCnt <= 256)
    __CPROVER_ensures(DoFilter || __CPROVER_return_value)
    /* a listed id passes (witness entry) */
    __CPROVER_ensures(!(DoFilter && gk_idx < (unsigned)FilterCnt && FilterBytes[gk_idx] == Header) || __CPROVER_return_value)
    __CPROVER_assigns();

/* SkipRecord: consumes the record, never moves backwards (a crafted length must not make
 * the record loop revisit data: termination of every tool's record loop rests on this) */
void SkipRecord(Byte Header, char const* Name, FILE* f)
    __CPROVER_requires(f == GF_FILE(0) && gf[0].pos >= 0 && gf[0].pos <= gf[0].len && gf[0].len <= 0x7fffffff)
    __CPROVER_requires(g_o_pos0 == gf[0].pos)
    __CPROVER_ensures(gf[0].pos >= g_o_pos0)
    __CPROVER_ensures(Header != FileHeaderStartAdr || gf[0].pos == g_o_pos0 + 4)
    __CPROVER_ensures(Header != FileHeaderEnd || gf[0].pos == g_o_pos0)
    __CPROVER_assigns(gf[0].pos, gf[0].n_read_calls, gf[0].io_error, verif_errno, g_exit_code, gf_script_i, gf_cell_addr, gf_cell_val, gf_cell_valid);
#endif
#endif
