/* C02 harness: AssembleFile of the real /repo/as.c (pass loop under loop contract, all
 * per-pass work replaced by havoc-with-frame) */
#include "verif.h"
#include "contracts/as.contracts.h"
#include <stdio.h>
#include <string.h>
#include <errno.h>
#include <unistd.h>
#include "strutil.h"
#include "asmsub.h"
#include "as.h"

int           g_out_exists, g_sum_n, g_openfile_calls;
unsigned long g_sum_vals[4];
int           verif_errno;
#undef errno
#define errno verif_errno

/* monitors (own bodies, so goto-instrument does not generate havoc bodies for them) */
#include "asmcode.h"
void OpenFile(void) { g_out_exists = 1; g_openfile_calls++; }
static int verif_unlink(char const* name) { if (name == OutName) g_out_exists = 0; return 0; }
#define unlink(n) verif_unlink(n)
static int mon_snprintf(char* d, size_t n, char const* fmt, long a0) {
    if (n) d[0] = 0;
    if (fmt[0] == '%' && fmt[1] == '7' && fmt[2] == 'u' && g_sum_n >= 0 && g_sum_n < 4) g_sum_vals[g_sum_n++] = (unsigned long)a0;
    return 0;
}
#define V_FIRST(a, ...) a
#define V_SECOND(a, b, ...) b
#define as_snprintf(d, n, ...) mon_snprintf((d), (n), V_FIRST(__VA_ARGS__, 0), (long)(V_SECOND(__VA_ARGS__, 0, 0)))
static int mon_snprcatf(char* d, size_t n) { (void)d; (void)n; return 0; }
#define as_snprcatf(d, n, ...) mon_snprcatf((d), (n))
static int mon_printf0(void) { return 0; }
#define printf(...) mon_printf0()
#define fprintf(...) mon_printf0()
static FILE g_file_obj;
static FILE* mon_fopen(void) { Boolean ok; VND(ok, uchar); return (ok & 1) ? &g_file_obj : NULL; }
#define fopen(a, b) mon_fopen()
#define main as_main
#include "as.c" /* the real /repo/as.c */
#undef main
#undef printf
#undef fprintf
#undef fopen
#undef unlink
#undef as_snprintf
#undef as_snprcatf
#include "harness/C02/as_stubs.inc"

static char names[6][8];
void h_AssembleFile(void) {
    char src[4];
    Boolean co, gerr0;
    src[0] = 'a'; src[1] = 0;
    { int i; for (i = 0; i < 6; i++) { VND_BYTES(names[i], 8); names[i][7] = 0; } }
    SourceFile = names[0]; OutName = names[1]; ErrorName = names[2]; LstName = names[3]; ShareName = names[4]; MacProName = names[5];
    MacroName = names[5];
    { static char prt[3][4], cfn[4]; PrtInitString = prt[0]; PrtExitString = prt[1]; PrtTitleString = prt[2]; CurrFileName = cfn; }
    { static char ep[2]; ErrorPath = ep; VND(ep[0], char); ep[1] = 0; }
    VND(CodeOutput, uchar); VND(ShareMode, uchar); VND(MacProOutput, uchar); VND(MacroOutput, uchar); VND(QuietMode, uchar);
    VND(ListMode, uchar); VND(ListMask, uchar); VND(MakeDebug, uchar); VND(MakeUseList, uchar); VND(MakeCrossList, uchar);
    VND(MakeSectionList, uchar); VND(MakeIncludeList, uchar);
    VASSUME(CodeOutput <= 1 && ListMode <= 2 && ShareMode <= 3);
    VASSUME(!MakeDebug);
    DebugMode = DebugNone;
    VND(GlobErrFlag, uchar); VASSUME(GlobErrFlag <= 1); gerr0 = GlobErrFlag;   /* an earlier file of the same run may have failed */
    g_out_exists = 0; g_sum_n = 0; g_openfile_calls = 0;
    co = CodeOutput;
    AssembleFile(src);
    VPOST(CodeOutput == co, "C02: (harness) the -o switch is constant during a run");
    VPOST(g_sum_n == 2 && g_sum_vals[0] == (unsigned long)ErrorCount && g_sum_vals[1] == (unsigned long)WarnCount,
          "C02: the summary prints the error and the warning counter");
    VPOST((GlobErrFlag != 0) == (gerr0 != 0 || ErrorCount != 0), "C02: the run is marked failed iff an error was counted for this file or an earlier file had failed (the mark is never withdrawn)");
    VPOST(!CodeOutput || ((g_out_exists != 0) == (ErrorCount == 0)), "C02: a code file is left iff no error was counted");
    VREACH("end");
}

/* C01: every pass starts from the same state, whatever the previous pass left behind (an unterminated PHASE, an open
 * section / IF / structure, a moved program counter ...): only the symbol table carries information from pass to pass,
 * which is what makes "one further pass changes nothing" meaningful.  All per-pass globals are arbitrary on entry. */
void h_InitPass(void) {
    int z; static TInputTag some_tag; static TOutputTag some_out;
    static char cfn[STRINGSIZE], defcpu[4];
    CurrFileName = cfn; defcpu[0] = 0;
    { static LargeWord pcs[SegCountPlusStruct], phs[SegCountPlusStruct]; PCs = pcs; Phases = phs; }   /* asmdef.c allocates both with SegCountPlusStruct entries */
    for (z = 0; z <= StructSeg; z++) { VND(Phases[z], u64); VND(PCs[z], u64); VND(PCsUsed[z], uchar); }
    for (z = 0; z < SegCount; z++) { VND_BYTES(&pPhaseStacks[z], sizeof(pPhaseStacks[z])); }
    VND(ActPC, int); VND(MomLineCounter, int); VND(MomLocHandle, int); VND(LocHandleCnt, int); VND(SectSymbolCounter, int);
    VND(CurrLine, int); VND(IncDepth, int); VND(ENDOccured, uchar); VND(RelSegs, uchar); VND(ErrorCount, uint); VND(WarnCount, uint);
    VND(LineSum, int); VND(MacLineSum, int);
    FirstInputTag = &some_tag; FirstOutputTag = &some_out;
    VND_BYTES(&SectionStack, sizeof(SectionStack)); VND_BYTES(&FirstIfSave, sizeof(FirstIfSave)); VND_BYTES(&FirstSaveState, sizeof(FirstSaveState));
    VND_BYTES(&StructStack, sizeof(StructStack)); VND_BYTES(&pInnermostNamedStruct, sizeof(pInnermostNamedStruct));
    VND(PassNo, int); VASSUME(PassNo >= 0 && PassNo < 1000);
    AssembleFile_InitPass();
    for (z = 1; z <= StructSeg; z++) {
        VPOST(Phases[z] == 0, "C01: a pass starts without any PHASE offset, whatever the previous pass left");
        VPOST(!PCsUsed[z], "C01: a pass starts with no segment marked as used");
    }
    for (z = 0; z < SegCount; z++) VPOST(pPhaseStacks[z] == NULL, "C01: a pass starts with empty PHASE stacks");
    VPOST(ActPC == SegCode && PCs[SegCode] == 0, "C01: a pass starts in the code segment at address 0");
    VPOST(MomLineCounter == 0 && CurrLine == 0 && IncDepth == 0 && LineSum == 0 && MacLineSum == 0, "C01: a pass starts with fresh line counters");
    VPOST(FirstInputTag == NULL && FirstOutputTag == NULL && SectionStack == NULL && FirstIfSave == NULL && FirstSaveState == NULL && StructStack == NULL && pInnermostNamedStruct == NULL,
          "C01: a pass starts with no open input level, section, conditional, SAVE frame or structure");
    VPOST(MomLocHandle == -1 && LocHandleCnt == 0 && SectSymbolCounter == 0, "C01: a pass starts with fresh local-symbol and section numbering");
    VPOST(!ENDOccured && !RelSegs && ErrorCount == 0 && WarnCount == 0, "C01/C02: a pass starts with END not seen and zero diagnostics counted");
    VREACH("end");
}
