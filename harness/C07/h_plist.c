/* C07 harness: ProcessSingle of the real /repo/plist.c: one printed line per record with the true CPU family,
 * segment, start address, byte length and last address; per-segment sums.  printf is redirected to a fixed-arity
 * monitor that recognises the constant format strings of the record line. */
#include "verif.h"
#include <stdio.h>
#include <stdlib.h>
#include <string.h>
#include <errno.h>
#include "stubs/gfile.c"
#include "fileformat.h"
#include "addrspace.h"
#include "nlmessages.h"
#include "toolutils.h"
#include "ioerrs.h"
#include "headids.h"
#undef errno
#define errno verif_errno
static char msg_txt[2];
char* getmessage(int Num) { (void)Num; return msg_txt; }
char* catgetmessage(PMsgCat Catalog, int Num) { (void)Catalog; (void)Num; return msg_txt; }
char* GetErrorMsg(int number) { (void)number; return msg_txt; }
char const* Blanks(int cnt) { (void)cnt; return msg_txt; }
/* oracle for the CPU family table (headids.c): some ids are known, the name pointer identifies the entry */
static TFamilyDescr g_fam; static int g_fam_known; static Word g_fam_asked;
PFamilyDescr FindFamilyById(Word Id) { g_fam_asked = Id; return g_fam_known ? &g_fam : NULL; }
/* record-line monitor */
static int g_n_fam, g_n_unknown, g_n_seg, g_n_start, g_n_len, g_n_end, g_n_entry, g_n_other;
static unsigned long g_p_fam, g_p_unknown, g_p_seg, g_p_start, g_p_len, g_p_end, g_p_entry;
static int mon_printf(char const* fmt, unsigned long a, unsigned long b) {
    if (fmt[0] == '%' && fmt[1] == '-' && fmt[2] == '1') { g_n_fam++; g_p_fam = a; }                    /* "%-13s "        */
    else if (fmt[0] == '?') { g_n_unknown++; g_p_unknown = a; }                                            /* "???=%02x"      */
    else if (fmt[0] == '%' && fmt[1] == '-' && fmt[2] == '7') { g_n_seg++; g_p_seg = a; }                 /* "%-7s   "       */
    else if (fmt[0] == '%' && fmt[1] == '0' && fmt[2] == '8' && fmt[5] == ' ') { g_n_start++; g_p_start = a; } /* "%08lX          " */
    else if (fmt[0] == '%' && fmt[1] == '0' && fmt[2] == '4') { g_n_len++; g_p_len = a; }                 /* "%04X       "   */
    else if (fmt[0] == '%' && fmt[1] == '0' && fmt[2] == '8' && fmt[5] == '\n') { g_n_end++; g_p_end = a; }   /* "%08lX\n"       */
    else if (fmt[0] == '%' && fmt[1] == 's' && fmt[2] == '%' && fmt[3] == '0') { g_n_entry++; g_p_entry = b; } /* "%s%08lX\n"     */
    else g_n_other++;
    return 0;
}
#define VA3(f, a, b, ...) (f), (unsigned long)(a), (unsigned long)(b)
#define printf(...) mon_printf(VA3(__VA_ARGS__, 0, 0, 0))
static int mon0(void) { return 0; }
#define fprintf(...) mon0()
#define fputs(a, b) mon0()
#define putchar(c) mon0()
static FILE* mon_fopen(void) { return GF_FILE(0); }
#define fopen(n, m) mon_fopen()
#define main plist_main
#include "contracts/loop_defaults.h"
#include "plist.c" /* the real /repo/plist.c */
#undef main
#undef fopen
#undef printf

static void mk_file(int i) {
    VND(gf[i].len, long); VND(gf[i].pos, long); VND(gf[i].w_off, long); VND(gf[i].w_val, uchar);
    VASSUME(gf[i].len >= 0 && gf[i].len <= 0x7fffffff && gf[i].pos >= 0 && gf[i].pos <= gf[i].len && gf[i].w_off >= 0);
    gf[i].is_open = 1; gf[i].fail_writes = 0; gf[i].n_write_calls = 0; gf[i].n_read_calls = 0; gf[i].bytes_written = 0; gf[i].io_error = 0;
}

/* one data record (long header form) + end record with an empty creator string */
void h_ProcessSingle_data(void) {
    Byte cpu, seg, gran; unsigned long start; unsigned len; char name[2]; int k; LongWord sum0, sumk0; int complete, valid;
    gf_reset(); mk_file(0); gf[0].pos = 0; gf_cell_mode = 0;
    msg_txt[0] = 'm'; msg_txt[1] = 0; name[0] = 'f'; name[1] = 0; QuietMode = True; NumFiles = 1;
    VND(cpu, uchar); VND(seg, uchar); VND(gran, uchar); VND(start, ulong); VND(len, uint);
    VASSUME(start <= 0xffffffffu && len <= 0xffff);
#ifdef VERIF_GRAN
    gran = VERIF_GRAN;        /* one obligation group per granularity (0 = invalid): the quotient length / granularity becomes a shift */
#endif
    VND(g_fam_known, int); g_fam.Name = "fam"; g_fam.Id = cpu;
    gf_script_i = 0; gf_script[0] = FileMagic; gf_script[1] = FileHeaderDataRec; gf_script[2] = cpu; gf_script[3] = seg; gf_script[4] = gran;
    gf_script[5] = start; gf_script[6] = len; gf_script[7] = FileHeaderEnd; gf_script_n = 8;
    /* the file ends right after the end-record byte (empty creator string) when it is complete */
    complete = (12 + (long)len + 1 <= gf[0].len);
    VASSUME(gf[0].len >= 12 && gf[0].len <= 12 + (long)len + 3);      /* truncated payload, or complete with a creator string of at most 2 characters */
    valid = seg < SegCount && gran != 0;
    VND(k, int); VASSUME(k >= 0 && k < SegCount);
    VND(Sums[k], uint); if (valid) VND(Sums[seg], uint);      /* the other totals are zero-initialised statics */
    sum0 = valid ? Sums[seg] : 0; sumk0 = Sums[k];
    g_n_fam = g_n_unknown = g_n_seg = g_n_start = g_n_len = g_n_end = g_n_entry = g_n_other = 0;
    ProcessSingle(name);
    /* ProcessSingle returned: the file was accepted */
    VPOST(valid, "C03: a record with a segment number outside the table or granularity 0 is rejected as a format error (never used as index or divisor)");
    VPOST(12 + (long)len < gf[0].len, "C03: a record whose payload runs past the end of the file is rejected as a format error");
    if (!valid || !(12 + (long)len < gf[0].len)) return;
    VPOST(g_n_start == 1 && g_n_len == 1 && g_n_end == 1 && g_n_seg == 1 && g_n_fam + g_n_unknown == 1, "C07: PLIST prints one line per record");
    VPOST(g_p_start == start && g_p_len == len, "C07: the line shows the record's true start address and byte length");
    VPOST(g_p_end == (unsigned long)(LongWord)(len ? start + len / gran - 1 : start - 1), "C07: the line shows the record's true last address (start + length / granularity - 1)");
    VPOST(g_p_seg == (unsigned long)SegNames[seg], "C07: the line names the record's segment");
    VPOST(g_fam_asked == cpu && (g_fam_known ? (g_n_fam == 1 && g_p_fam == (unsigned long)g_fam.Name) : g_n_unknown == 1), "C07: the line names the CPU family of the record's CPU id");
    VPOST(Sums[seg] == (LongWord)(sum0 + len), "C07: the segment total grows by the record's byte length");
    VPOST(k == seg || Sums[k] == sumk0, "C07: the totals of the other segments are unchanged");
    VREACH("end");
}
