/* Contracts for the address-bookkeeping statements of /repo/asmallg.c (property C10).
 *
 * Abstract state: per segment s: load counter PCs[s], phase offset Phases[s], phase stack
 * pPhaseStacks[s]; ActPC; DontPrint ("next code starts a new record").
 * "Address seen by labels and the PC symbol" = PCs[ActPC] + Phases[ActPC].
 * Ghost snapshot of the entry state (set by the harness, tied by `requires`):
 *   g_o_actpc, g_o_pc (= PCs[ActPC]), g_o_phase (= Phases[ActPC]), g_o_dontprint,
 *   g_o_stack (= pPhaseStacks[ActPC]); witness segment gk_seg != ActPC with g_w_pc, g_w_phase.
 * Oracle of the expression evaluator: g_ev_val, g_ev_ok, g_ev_flags (first call),
 *   g_ev2_val, g_ev2_ok (second call: ALIGN's alignment value).
 */
#ifndef ASMALLG_CONTRACTS_H
#define ASMALLG_CONTRACTS_H
#include "stdinc.h"
#include "asmdef.h"
#include "asmpars.h"
#include "asmsub.h"
#include "stubs/gerr.h"

extern unsigned           g_o_actpc, gk_seg;
extern unsigned long long g_o_pc, g_o_phase, g_w_pc, g_w_phase;
extern int                g_o_dontprint;
extern tSavePhase*        g_o_stack;
extern unsigned long      g_o_err;
extern long long          g_ev_val, g_ev2_val;
extern int                g_ev_ok, g_ev_flags, g_ev2_ok, g_ev_calls;
extern unsigned long long g_rest;
extern int                g_bk_calls, g_ms_val, g_ms_calls;
extern unsigned long      g_ms_len;

#define SEG_OK (ActPC < SegCountPlusStruct)
#define C10_SNAP_OK                                                                       \
    (SEG_OK && g_o_actpc == ActPC && g_o_pc == PCs[ActPC] && g_o_phase == Phases[ActPC] && \
     g_o_dontprint == DontPrint && g_o_err == g_err_cnt &&                                 \
     gk_seg < SegCountPlusStruct && gk_seg != ActPC && g_w_pc == PCs[gk_seg] && g_w_phase == Phases[gk_seg])
#define C10_SNAP __CPROVER_requires(C10_SNAP_OK)
/* every other segment keeps its counter and phase ("PHASE/ORG do not leak") */
#define OTHERS_SAME (PCs[gk_seg] == g_w_pc && Phases[gk_seg] == g_w_phase)
#define EPC (PCs[ActPC] + Phases[ActPC])
#define EV_UNKNOWN ((g_ev_flags & eSymbolFlag_FirstPassUnknown) != 0)

#define C10_FRAME                                                                          \
    __CPROVER_assigns(DontPrint, g_err_cnt, g_err_last, g_ev_calls)                        \
    __CPROVER_assigns(__CPROVER_object_whole(PCs), __CPROVER_object_whole(Phases))

#define ALIGN_N ((unsigned)((ArgCnt == 2) ? g_ev2_val : g_ev_val) & 0xffffu)
#define ALIGN_OKS ((ArgCnt == 1 && g_ev_ok) || (ArgCnt == 2 && g_ev_ok && g_ev2_ok && !EV_UNKNOWN))

#ifdef VERIF_CBMC
/* ORG x: afterwards labels/PC symbol read x; a move forces a new record; other segments untouched */
static void CodeORG_Core(tStrComp const* pArg)
    C10_SNAP __CPROVER_requires(g_ev_calls == 0)
    __CPROVER_ensures(ActPC == g_o_actpc && OTHERS_SAME && Phases[ActPC] == g_o_phase)
    __CPROVER_ensures(!(g_ev_ok && !EV_UNKNOWN) || (EPC == (LargeWord)g_ev_val && g_err_cnt == g_o_err))
    __CPROVER_ensures(!(g_ev_ok && !EV_UNKNOWN && (LargeWord)g_ev_val != g_o_pc + g_o_phase) || DontPrint)
    __CPROVER_ensures((g_ev_ok && !EV_UNKNOWN) || (PCs[ActPC] == g_o_pc && DontPrint == g_o_dontprint))
    __CPROVER_ensures(!(g_ev_ok && EV_UNKNOWN) || g_err_cnt == g_o_err + 1)
    C10_FRAME;

/* RORG d: the load counter moves by d */
static void CodeRORG(Word Index)
    C10_SNAP __CPROVER_requires(g_ev_calls == 0)
    __CPROVER_ensures(ActPC == g_o_actpc && OTHERS_SAME && Phases[ActPC] == g_o_phase)
    __CPROVER_ensures(!(AttrPart.str.p_str[0] == 0 && ArgCnt == 1 && g_ev_ok && !EV_UNKNOWN) ||
        (PCs[ActPC] == g_o_pc + (LargeWord)g_ev_val && DontPrint && g_err_cnt == g_o_err))
    __CPROVER_ensures((AttrPart.str.p_str[0] == 0 && ArgCnt == 1 && g_ev_ok && !EV_UNKNOWN) ||
        (PCs[ActPC] == g_o_pc && DontPrint == g_o_dontprint))
    C10_FRAME;

/* PHASE x: labels read x from here on, load counter untouched, old offset pushed */
static void CodePHASE(Word Index)
    C10_SNAP __CPROVER_requires(g_ev_calls == 0 && (ActPC >= SegCount || g_o_stack == pPhaseStacks[ActPC]))
    __CPROVER_ensures(ActPC == g_o_actpc && OTHERS_SAME && PCs[ActPC] == g_o_pc && DontPrint == g_o_dontprint)
    __CPROVER_ensures(!(ArgCnt == 1 && ActPC != StructSeg && g_ev_ok) ||
        (EPC == (LargeWord)(LongInt)g_ev_val && pPhaseStacks[ActPC] != NULL && pPhaseStacks[ActPC] != g_o_stack &&
         pPhaseStacks[ActPC]->SaveValue == g_o_phase && pPhaseStacks[ActPC]->pNext == g_o_stack))
    __CPROVER_ensures((ArgCnt == 1 && ActPC != StructSeg && g_ev_ok) || Phases[ActPC] == g_o_phase)
    __CPROVER_ensures(!(ArgCnt != 1 || ActPC == StructSeg) || g_err_cnt == g_o_err + 1)
    C10_FRAME __CPROVER_assigns(__CPROVER_object_whole(pPhaseStacks));

/* DEPHASE: restores the offset saved by the matching PHASE of the same segment; with no
 * PHASE open the offset is 0; the load counter is never touched */
static void CodeDEPHASE(Word Index)
    C10_SNAP __CPROVER_requires(ActPC >= SegCount || g_o_stack == pPhaseStacks[ActPC])
    __CPROVER_ensures(ActPC == g_o_actpc && OTHERS_SAME && PCs[ActPC] == g_o_pc && DontPrint == g_o_dontprint)
    __CPROVER_ensures(!(ArgCnt == 0 && ActPC != StructSeg && g_o_stack == NULL) || (Phases[ActPC] == 0 && pPhaseStacks[ActPC] == NULL))
    __CPROVER_ensures((ArgCnt == 0 && ActPC != StructSeg) || (Phases[ActPC] == g_o_phase && g_err_cnt == g_o_err + 1))
    C10_FRAME __CPROVER_assigns(__CPROVER_object_whole(pPhaseStacks)) __CPROVER_frees(g_o_stack);

/* SEGMENT switch: first use starts at the segment's initial address, later uses resume */
static void SetNSeg(Byte NSeg)
    __CPROVER_requires(SEG_OK && NSeg < SegCountPlusStruct && gk_seg < SegCountPlusStruct && g_w_pc == PCs[gk_seg] && g_w_phase == Phases[gk_seg])
    __CPROVER_requires(g_o_actpc == ActPC && g_o_dontprint == DontPrint)
    __CPROVER_ensures(ActPC == NSeg && PCsUsed[NSeg])
    __CPROVER_ensures(!__CPROVER_old(PCsUsed[NSeg]) || PCs[NSeg] == __CPROVER_old(PCs[NSeg]))
    __CPROVER_ensures(__CPROVER_old(PCsUsed[NSeg]) || PCs[NSeg] == SegInits[NSeg])
    __CPROVER_ensures(gk_seg == NSeg || (PCs[gk_seg] == g_w_pc && PCsUsed[gk_seg] == __CPROVER_old(PCsUsed[gk_seg])))
    __CPROVER_ensures(Phases[gk_seg] == g_w_phase)
    /* a change of segment, or the first use, forces a new record */
    __CPROVER_ensures(!(NSeg != g_o_actpc || !__CPROVER_old(PCsUsed[NSeg])) || DontPrint)
    __CPROVER_ensures((NSeg != g_o_actpc || !__CPROVER_old(PCsUsed[NSeg])) || DontPrint == g_o_dontprint)
    __CPROVER_assigns(ActPC, DontPrint, __CPROVER_object_whole(PCs), __CPROVER_object_whole(PCsUsed));

/* ALIGN n[,fill]: the next address is the next multiple of n (n = 1..65535); the gap is
 * reserved (one argument) or filled (two arguments); n = 0 is an error, not a crash.
 * g_ev2_val is the alignment value (second evaluator call when a fill value is given). */
static void CodeALIGN(Word Index)
    C10_SNAP __CPROVER_requires(g_ev_calls == 0 && MaxCodeLen >= 1 && MaxCodeLen <= 65535)
    __CPROVER_ensures(ActPC == g_o_actpc && OTHERS_SAME && PCs[ActPC] == g_o_pc && Phases[ActPC] == g_o_phase)
    /* distance to the next multiple of n is (n - address mod n) mod n; g_rest is the ghost
     * parameter "address mod n" (tied by this requires clause, evaluated over the entry state) */
    __CPROVER_requires(ArgCnt != 1 || ALIGN_N == 0 || g_rest == (PCs[ActPC] + Phases[ActPC]) % (Word)ALIGN_N)
    /* decided with the SMT back end (z3): the two 64-bit remainders (specification and code)
     * are equal terms there; bit-blasted to SAT they are two dividers and time out */
    __CPROVER_ensures(!(ALIGN_OKS && ALIGN_N != 0 && ArgCnt == 1) ||
        (CodeLen == (LongInt)(g_rest ? ALIGN_N - g_rest : 0) && (DontPrint != 0) == (CodeLen != 0)))
    __CPROVER_ensures(!(ALIGN_OKS && ALIGN_N == 0) || (g_err_cnt >= g_o_err + 1 && CodeLen == 0))
    __CPROVER_assigns(CodeLen, DontPrint, g_err_cnt, g_err_last, g_ev_calls, g_bk_calls, g_ms_len, g_ms_val, g_ms_calls, __CPROVER_object_whole(BAsmCode));
#endif
#endif
