"""C10 -- address bookkeeping: ORG, RORG, PHASE/DEPHASE, SEGMENT, ALIGN (asmallg.c)"""
from vdriver import G
LEVEL = "proof"
SRC = "harness/C10/h_asmallg.c"
LINK = ["asmdef.c", "tempresult.c"]
STUBS = ["stubs/gerr.c"]
GROUPS = []
def g(fn, entry=None, enforce=True, **kw):
    GROUPS.append(G("pc_" + (entry or fn), SRC, "h_" + (entry or fn), enforce=[fn] if enforce else [], link=LINK, stubs=STUBS,
                    unwind=kw.pop("unwind", 16), timeout=kw.pop("timeout", 600), functions=kw.pop("functions", [fn]), **kw))
g("CodeORG_Core"); g("CodeRORG"); g("CodePHASE"); g("CodeDEPHASE"); g("SetNSeg")
g("CodePHASE", entry="PHASE_DEPHASE", enforce=False, functions=["CodePHASE", "CodeDEPHASE"])
g("CodeALIGN", entry="CodeALIGN", defs=["-DVERIF_ALIGN_ARGS=1"], flags=["--signed-overflow-check"], timeout=300, solver="z3")
GROUPS[-1]["name"] = "pc_CodeALIGN_1"
g("CodeALIGN", entry="CodeALIGN", defs=["-DVERIF_ALIGN_ARGS=2"], flags=["--signed-overflow-check"], timeout=300)
GROUPS[-1]["name"] = "pc_CodeALIGN_2"
GROUPS.append(G("pc_SAVE_RESTORE", SRC, "h_SAVE_RESTORE", enforce=[], link=LINK, stubs=STUBS, unwind=10, timeout=600, dfcc=False, drop_unused=True, object_bits=12, defs=["-DVERIF_SAVE"],
                functions=["CodeSAVE", "CodeRESTORE"], replace_calls=["SetCPUByType:verif_SetCPUByType"]))
GROUPS.append(G("st_label_struct_elem", "harness/C01/h_asmlabel.c", "h_label_struct_elem", enforce=[], link=[], stubs=["stubs/gerr.c"], unwind=6, timeout=300, dfcc=False, drop_unused=True,
                object_bits=12, functions=["LabelHandle", "LabelModify"], bounded="at most 2 unnamed struct/union levels inside the named structure"))
TRUSTED_BASE = ["stubs/gerr.c", "evaluator oracle (EvalStrIntExpression*: arbitrary value/ok/flags)",
                "ProgCounter/EProgCounter mirrored in the harness (asmsub.c one-liners)", "BookKeeping stub (counts)"]
ASSUMPTIONS = ["ActPC < SegCountPlusStruct (type invariant of the segment selector)", "malloc/calloc never fail",
               "run-level statement by induction over statements (DESIGN.md 3/C10)"]
NOT_COVERED = ["CodeSTRUCT/CodeENDSTRUCT and structure instantiation (only the field offset recorded by LabelHandle is under obligation)", "enum state of SAVE (saved, never restored by the code; not named by the property)", "WriteCode advance (as.c, see C04)"]
EXPLANATION = ""

MANIFEST = dict(
    category="proof",
    text="ORG, RORG, PHASE, DEPHASE (incl. the PHASE;DEPHASE pair), SEGMENT switching and ALIGN of asmallg.c are verified on the real "
         "translation unit for every segment, every 64-bit counter/offset and every evaluator answer: labels read load counter + phase, "
         "only the active segment is touched (witness segment), DEPHASE restores the offset saved by the matching PHASE, a moved counter or "
         "segment change forces a new record, ALIGN n reserves/fills exactly (n - address mod n) mod n and rejects n = 0. SAVE/RESTORE reinstate the CPU, the segment (forcing a new record) and the listing state of the matching SAVE; a label in a STRUCT/UNION body records its field at the offset counted from the innermost named structure.",
    note="ALIGN's remainder obligation is discharged by the z3 SMT back end (two equal 64-bit bvurem terms; SAT bit-blasting times out). "
         "Not under contract: STRUCT/ENDSTRUCT, SAVE/RESTORE. Trusted: evaluator oracle, ProgCounter/EProgCounter mirrored in the harness, "
         "BookKeeping stub, memset monitor.",
)
