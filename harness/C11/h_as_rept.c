/* C11 / C20 harness: stepping of repetition bodies in the real /repo/as.c
 * (REPT_Processor + REPT_GetPos, IRP_Processor + IRP_GetPos). */
#include "verif.h"
#include <stdio.h>
#include <string.h>
#include "stdinc.h"
#include "asmdef.h"
#include "asmsub.h"
#include "asmmac.h"
#include "dynstr.h"
#include "strutil.h"
#include "stubs/gerr.h"

/* ghost log */
static char const*   g_delivered;          /* body line handed to the reader */
static int           g_exp_calls;          /* ExpandLine calls */
static char const*   g_exp_arg[4];
static int           g_exp_no[4];
static int           g_push, g_pop;
static unsigned long g_pos_a, g_pos_b;     /* numbers REPT_GetPos prints */
static int           g_pos_calls;
static char const*   g_pos_txt;            /* parameter text IRP_GetPos prints */

size_t as_dynstr_copy_c_str(as_dynstr_t* p_dest, char const* p_src) { (void)p_dest; g_delivered = p_src; return 0; }
void   ExpandLine(char const* Para, Byte Num, struct as_dynstr* p_str) { (void)p_str; if (g_exp_calls >= 0 && g_exp_calls < 4) { g_exp_arg[g_exp_calls] = Para; g_exp_no[g_exp_calls] = Num; } g_exp_calls++; }
void   PushLocHandle(LongInt NewLoc) { (void)NewLoc; g_push++; }
void   PopLocHandle(void) { g_pop++; }
LongInt GetLocHandle(void) { return 7; }

void   ClearStringList(StringList* List) { *List = NULL; }   /* stringlists.c: frees every record; the list is empty afterwards */
size_t strmaxcpy(char* dest, char const* src, size_t Max) { size_t n = 0; if (!Max) return 0; while (n < 3 && src[n] && n + 1 < Max) { dest[n] = src[n]; n++; } dest[n] = 0; return n; }
/* observers for the parameter text IRP_GetPos builds */
static char const* g_cpy_src; static char const* g_cat_src[4]; static int g_cat_calls;
static char* mon_strcpy(char* d, char const* s) { g_cpy_src = s; d[0] = s[0]; if (s[0]) d[1] = 0; return d; }
size_t strmaxcat(char* Dest, char const* Src, size_t MaxLen) { (void)Dest; (void)MaxLen; if (g_cat_calls >= 0 && g_cat_calls < 4) g_cat_src[g_cat_calls] = Src; g_cat_calls++; return 0; }
#define strcpy(d, s) mon_strcpy((d), (s))
static int mon0(void) { return 0; }
#define printf(...) mon0()
#define fprintf(...) mon0()
/* "REPT %lu(%lu)" and "%s:%s(%ld) " : capture the arguments */
static int mon_pos(char* d, size_t n, char const* fmt, unsigned long a, unsigned long b, unsigned long c) {
    if (n) d[0] = 0;
    g_pos_calls++;
    if (fmt[0] == 'R') { g_pos_a = a; g_pos_b = b; }
    else { g_pos_txt = (char const*)b; g_pos_b = c; }
    return 0;
}
#define VA3(a, b, c, ...) (unsigned long)(a), (unsigned long)(b), (unsigned long)(c)
#define as_snprintf(d, n, fmt, ...) mon_pos((d), (n), (fmt), VA3(__VA_ARGS__, 0, 0, 0))
#define main as_main
#include "contracts/loop_defaults.h"
#include "as.c" /* the real /repo/as.c */
#undef main
#undef as_snprintf
#undef strcpy

static TInputTag tag;
static StringRec body[3], par[4];
static char      bodytxt[3][2], partxt[4][2];

static void mk_tag(void) {
    int i, k;
    for (i = 0; i < 3; i++) { bodytxt[i][0] = 'a' + i; bodytxt[i][1] = 0; body[i].Content = bodytxt[i]; body[i].Next = (i < 2) ? &body[i + 1] : NULL; }
    for (i = 0; i < 4; i++) { partxt[i][0] = 'p' + i; partxt[i][1] = 0; par[i].Content = partxt[i]; par[i].Next = (i < 3) ? &par[i + 1] : NULL; }
    memset(&tag, 0, sizeof(tag));
    VND(tag.LineCnt, int); VND(tag.LineZ, int); VND(tag.ParCnt, int); VND(tag.ParZ, int);
    VASSUME(tag.LineCnt >= 1 && tag.LineCnt <= 3 && tag.LineZ >= 1 && tag.LineZ <= tag.LineCnt);
    VASSUME(tag.ParCnt >= 1 && tag.ParZ >= 1 && tag.ParZ <= tag.ParCnt && tag.ParCnt < 1000000);
    VND(tag.StartLine, int); VASSUME(tag.StartLine >= 0 && tag.StartLine < 100000000);
    VND(tag.FromFile, uchar); VND(tag.GlobalSymbols, uchar); VND(tag.First, uchar);
    VASSUME(tag.FromFile <= 1 && tag.GlobalSymbols <= 1 && tag.First <= 1);
    tag.Lines = &body[0];
    /* LineRun points at body line number LineZ (the reader keeps it there between calls) */
    VND(k, int); VASSUME(k == tag.LineZ - 1);
    tag.LineRun = &body[k];
    tag.Params = &par[0];
    tag.SaveAttr[0] = 0;
    g_delivered = NULL; g_exp_calls = 0; g_push = 0; g_pop = 0; g_pos_calls = 0; g_pos_a = g_pos_b = 0; g_pos_txt = NULL; g_cpy_src = NULL; g_cat_calls = 0;
}

/* REPT: one call delivers body line LineZ of iteration ParZ and steps to the next (line, iteration) pair */
void h_REPT_step(void) {
    long l0, p0; Boolean r; as_dynstr_t dst;
    mk_tag();
    tag.Processor = REPT_Processor;
    l0 = tag.LineZ; p0 = tag.ParZ;
    r = REPT_Processor(&tag, &dst);
    VPOST(g_delivered == bodytxt[l0 - 1], "C11: REPT delivers the body lines in order");
    VPOST(l0 < tag.LineCnt ? (tag.LineZ == l0 + 1 && tag.ParZ == p0) : (tag.LineZ == 1 && tag.ParZ == p0 + 1), "C11: REPT steps line by line, then to the next iteration");
    VPOST((r != 0) == !(l0 == tag.LineCnt && p0 == tag.ParCnt), "C11: REPT ends exactly after the last line of the last iteration");
    VPOST(CurrLine == tag.StartLine + (tag.FromFile ? l0 : 0), "C20: inside REPT the current line is the body line's source line");
    VPOST(g_push == ((l0 == 1 && !tag.GlobalSymbols) ? 1 : 0), "C11: every iteration opens its own local symbol space");
    /* position report for a diagnostic raised by the line just delivered */
    (void)REPT_GetPos(&tag, (char*)&dst, 8);
    VPOST(g_pos_calls == 1 && g_pos_a == (unsigned long)p0 && g_pos_b == (unsigned long)l0, "C20: REPT position names the iteration and body line that was just delivered");
    VREACH("end");
}

/* IRP / IRPN: parameters ParZ..ParZ+n-1 are substituted as tokens 1..n */
void h_IRP_step(void) {
    long l0, p0, n; Boolean r; as_dynstr_t dst; char buf[8];
    mk_tag();
    tag.Processor = IRP_Processor;
    VND(tag.ParIter, int);
    VASSUME(tag.ParIter >= 0 && tag.ParIter <= 2);
    n = tag.ParIter == 0 ? 1 : tag.ParIter;
    VASSUME(tag.ParCnt <= 4 && tag.ParZ + n - 1 <= tag.ParCnt); /* the parameter window lies inside the list */
    l0 = tag.LineZ; p0 = tag.ParZ;
    r = IRP_Processor(&tag, &dst);
    VPOST(g_delivered == bodytxt[l0 - 1], "C11: IRP delivers the body lines in order");
    VPOST(g_exp_calls == n && g_exp_arg[0] == partxt[p0 - 1] && g_exp_no[0] == 1 && (n < 2 || (g_exp_arg[1] == partxt[p0] && g_exp_no[1] == 2)),
          "C11: IRP/IRPN substitutes the current parameter group as tokens 1..n");
    VPOST(l0 < tag.LineCnt ? (tag.LineZ == l0 + 1 && tag.ParZ == p0) : (tag.LineZ == 1 && tag.ParZ == p0 + n), "C11: IRP steps line by line, then to the next parameter group");
    VPOST((r != 0) == !(l0 == tag.LineCnt && p0 + n > tag.ParCnt), "C11: IRP ends after the last line of the last parameter group");
    VPOST(CurrLine == tag.StartLine + (tag.FromFile ? l0 : 0), "C20: inside IRP the current line is the body line's source line");
    (void)IRP_GetPos(&tag, buf, sizeof(buf));
    VPOST(g_pos_calls == 1 && g_pos_b == (unsigned long)l0, "C20: IRP position names the body line that was just delivered");
    VPOST(g_cpy_src == partxt[p0 - 1], "C20: IRP position names the parameter (group) that was just substituted");
    VPOST(n < 2 || (g_cat_calls == 2 && g_cat_src[1] == partxt[p0]), "C20: IRPN position lists the whole parameter group");
    VREACH("end");
}

/* EXITM inside an IRP body: ExpandEXITM runs the construct's Cleanup, and the reader runs it again when it drops the
 * (now empty) input level.  Cleanup must therefore be safe on an already cleaned-up level (C03: no crash; C11: EXITM). */
void h_IRP_Cleanup_twice(void) {
    mk_tag();
    tag.Processor = IRP_Processor;
    VND(tag.ParIter, int); VASSUME(tag.ParIter >= 0 && tag.ParIter <= 2);
    IRP_Cleanup(&tag);
    VPOST(tag.Params == NULL && tag.Lines == NULL, "C11: EXITM releases the body and parameter lists of the IRP level");
    VPOST(tag.SaveAttr[0] == partxt[3][0], "C20: the last parameter is kept for position reports");
    IRP_Cleanup(&tag);                                       /* second call from the reader (GetNextLine) */
    VPOST(tag.Params == NULL && tag.Lines == NULL, "C03: cleaning up an IRP level twice (EXITM, then end of level) is harmless");
    VREACH("end");
}

/* MACRO: the local symbol space opened before the first body line is closed exactly once when the level ends --
 * and not at all for an empty body, whose level ends without MACRO_Processor ever running (otherwise the pop
 * discards the symbol space of the ENCLOSING macro: labels of the caller become undefined). */
void h_MACRO_local_balance(void) {
    static MacroRec mac; as_dynstr_t dst; int n, i; Boolean more = True;
    mk_tag();
    tag.First = True;                                       /* as GenerateProcessor creates every input level */
    tag.Processor = MACRO_Processor; tag.Macro = &mac; tag.ParCnt = 0; tag.Params = NULL; tag.LineZ = 1; tag.LineRun = NULL;
    tag.UsesNumArgs = tag.UsesAllArgs = False; mac.LocIntLabel = False; VND(mac.UseCounter, int); HasAttrs = False;
    VND(n, int); VASSUME(n >= 0 && n <= tag.LineCnt);          /* body lines delivered before the level ends (0 = empty body / never run) */
    for (i = 0; i < 3; i++) if (i < n) more = MACRO_Processor(&tag, &dst);
    VPOST(g_push == ((n >= 1 && !tag.GlobalSymbols) ? 1 : 0), "C11: a macro expansion opens its local symbol space before its first body line");
    MACRO_Restorer(&tag);
    VPOST(g_pop == g_push, "C11: a macro level closes exactly the local symbol spaces it opened, none for an empty body (also C13: labels of the caller stay defined)");
    VREACH("end");
}

/* SHIFT: discards the first argument of the ENCLOSING MACRO CALL, also when it is executed from inside a REPT/IRP/WHILE
 * body within that macro (the repetition levels have no macro arguments of their own). */
static PInputTag g_cms_tag; static int g_cms_calls, g_cut_calls;
void verif_ComputeMacroStrings(PInputTag Tag) { g_cms_calls++; g_cms_tag = Tag; }
char* GetAndCutStringList(StringList* List) { StringRecPtr f = *List; g_cut_calls++; if (!f) return NULL; *List = f->Next; return f->Content; }
void h_ExpandSHIFT(void) {
    static TInputTag inner, mac; int nested, cnt0;
    mk_tag();                                                  /* par[0..3] = the macro call's arguments */
    memset(&inner, 0, sizeof(inner)); memset(&mac, 0, sizeof(mac));
    mac.IsMacro = True; mac.Processor = MACRO_Processor; mac.Params = &par[0]; VND(mac.ParCnt, int); VASSUME(mac.ParCnt >= 1 && mac.ParCnt <= 4); mac.Next = NULL;
    inner.IsMacro = True; VND(nested, int); VASSUME(nested >= 0 && nested <= 2);
    inner.Processor = (nested == 1) ? REPT_Processor : IRP_Processor; inner.Params = (nested == 2) ? &body[0] : NULL; inner.ParCnt = (nested == 2) ? 3 : 0; inner.Next = &mac;
    FirstInputTag = nested ? &inner : &mac;
    IfAsm = True; ArgCnt = 0; cnt0 = mac.ParCnt; g_cms_calls = g_cut_calls = 0;
    VND(g_err_cnt, ulong); VASSUME(g_err_cnt < 1000000);
    ExpandSHIFT();
    VPOST(mac.Params == &par[1] && mac.ParCnt == cnt0 - 1, "C11: SHIFT discards the first argument of the enclosing macro call");
    VPOST(!nested || (inner.Params == ((nested == 2) ? &body[0] : NULL) && inner.ParCnt == ((nested == 2) ? 3 : 0)), "C11: SHIFT inside a REPT/IRP body leaves the repetition's own list alone");
    VPOST(g_cms_calls == 1 && g_cms_tag == &mac && g_cut_calls == 1, "C11: ARGCOUNT / ALLARGS of the macro call are recomputed once");
    VREACH("end");
}
