/* Contracts for the operator bodies of /repo/operator.c  (property C08, C03).
 *
 * Specification source: doc/assembler-usage.md, table "Operators Predefined by AS"
 * and the paragraphs below it: 64-bit two's-complement integer arithmetic (written
 * here with unsigned operations so that the spec has no undefined behaviour),
 * logical shifts, truncating division, 0/1 truth values, "><" mirrors the lowest
 * n (1..32) bits and leaves the others unchanged, division by zero is an error.
 *
 * The contracts are attached to declarations that precede the inclusion of the real
 * operator.c; CBMC merges them with the later definitions.
 */
#ifndef OPERATOR_CONTRACTS_H
#define OPERATOR_CONTRACTS_H

#include "stdinc.h"
#include "operator.h"
#include "tempresult.h"
#include "stubs/gerr.h"

/* ghost witness bit (chosen arbitrarily by the harness) */
extern unsigned gk_bit;

#define U64(x) ((unsigned long long)(x))
#define S64(x) ((long long)(x))

/* --- specification expressions over old operand values ------------------------ */
#define SPEC_SHL(l, r)    S64(U64(l) << (r))
#define SPEC_SHR(l, r)    S64(U64(l) >> (r))
#define SPEC_ADD(l, r)    S64(U64(l) + U64(r))
#define SPEC_SUB(l, r)    S64(U64(l) - U64(r))
/* same syntactic form as C's product: CBMC gives signed * wrap-around semantics;
 * an unsigned formulation makes the SAT problem a multiplier-equivalence check */
#define SPEC_MUL(l, r)    ((l) * (r))
/* truncating division in two's complement: -2^63 / -1 wraps to -2^63 */
#define SPEC_DIV(l, r)    (((r) == -1) ? S64(0ull - U64(l)) : ((l) / (r)))
#define SPEC_MOD(l, r)    (((r) == -1) ? 0ll : ((l) % (r)))
/* bit k of the mirror of the lowest n bits of l */
#define SPEC_MIRROR_BIT(l, n, k) \
    (((k) < (unsigned)(n)) ? ((U64(l) >> ((unsigned)(n) - 1u - (k))) & 1u) : ((U64(l) >> (k)) & 1u))

/* --- shared shape of every operator contract ---------------------------------- */
/* The three objects are supplied by the harness (distinct locals); DFCC's is_fresh
 * would re-allocate them inside the checking wrapper and hide the result from the
 * harness-level VPOST / native replay, so it is not used here. */
#define OP_PRE                                                                          \
    __CPROVER_requires(pErg != pLVal && pErg != pRVal && pLVal != pRVal)                \
    __CPROVER_requires(pErg->Typ == TempNone)

/* Operand values at entry.  The *whole* specification expression is wrapped in
 * __CPROVER_old(), i.e. evaluated at function entry over the same SSA symbols the
 * body reads; CBMC then shares the / # * and floating-point sub-expressions between
 * specification and code.  (With snapshots of the operands instead, those
 * obligations become divider / multiplier / FP-adder equivalence problems that no
 * installed SAT back end finished within 5 minutes.) */
#define OLD_LI (pLVal->Contents.Int)
#define OLD_RI (pRVal->Contents.Int)
#define OLD_LF (pLVal->Contents.Float)
#define OLD_RF (pRVal->Contents.Float)

/* flag promotion as the formula parser relies on it (first-pass-unknown,
 * questionable and uses-forwards flags of either operand reach the result) */
#define POST_PROMOTE_LR                                                                          \
    __CPROVER_ensures(pErg->Typ == TempNone ||                                                   \
        (pErg->Flags == (__CPROVER_old(pErg->Flags) |                                            \
            ((__CPROVER_old(pLVal->Flags) | __CPROVER_old(pRVal->Flags)) & eSymbolFlags_Promotable))))  \
    __CPROVER_ensures(pErg->Typ == TempNone ||                                                   \
        (pErg->AddrSpaceMask == (__CPROVER_old(pErg->AddrSpaceMask) |                            \
            __CPROVER_old(pLVal->AddrSpaceMask) | __CPROVER_old(pRVal->AddrSpaceMask))))         \
    __CPROVER_ensures(pErg->Typ == TempNone ||                                                   \
        (pErg->DataSize == ((__CPROVER_old(pErg->DataSize) != eSymbolSizeUnknown) ? __CPROVER_old(pErg->DataSize) : \
                            (__CPROVER_old(pLVal->DataSize) != eSymbolSizeUnknown) ? __CPROVER_old(pLVal->DataSize) : \
                            __CPROVER_old(pRVal->DataSize))))

#define POST_PROMOTE_L                                                                           \
    __CPROVER_ensures(pErg->Typ == TempNone ||                                                   \
        (pErg->Flags == (__CPROVER_old(pErg->Flags) | (__CPROVER_old(pLVal->Flags) & eSymbolFlags_Promotable)))) \
    __CPROVER_ensures(pErg->Typ == TempNone ||                                                   \
        (pErg->AddrSpaceMask == (__CPROVER_old(pErg->AddrSpaceMask) | __CPROVER_old(pLVal->AddrSpaceMask))))

#define OP_FRAME __CPROVER_assigns(*pErg) __CPROVER_assigns(g_err_cnt, g_err_last)

#define NO_ERR  __CPROVER_ensures(g_err_cnt == __CPROVER_old(g_err_cnt))

#define INT_INT_PRE                                                                     \
    OP_PRE __CPROVER_requires(pLVal->Typ == TempInt && pRVal->Typ == TempInt)
#define FLT_FLT_PRE                                                                     \
    OP_PRE __CPROVER_requires(pLVal->Typ == TempFloat && pRVal->Typ == TempFloat)

#define DECL_OP(name) static void name(TempResult* pErg, TempResult* pLVal, TempResult* pRVal)

#define INT_RESULT(expr) \
    __CPROVER_ensures(pErg->Typ == TempInt && pErg->Contents.Int == (expr))
/* ghost-parameter form: "for every X: requires X == spec(inputs), ensures result == X".
 * The requires clause is evaluated at entry over the same SSA symbols the body reads,
 * so CBMC shares the * / # and floating-point sub-expressions between specification
 * and code (__CPROVER_old() only tracks lvalues; and with operand snapshots those
 * obligations became multiplier / divider / FP-adder equivalence problems that no
 * installed SAT back end finished in 5 minutes). */
extern long long g_x_i;
extern double    g_x_f;
#define INT_RESULT_OLD(expr) \
    __CPROVER_requires(g_x_i == (expr)) \
    __CPROVER_ensures(pErg->Typ == TempInt && pErg->Contents.Int == g_x_i)
#define SAME_F(a, b) (((a) == (b)) || (((a) != (a)) && ((b) != (b))))
#define FLT_RESULT(expr) \
    __CPROVER_requires(SAME_F(g_x_f, (expr))) \
    __CPROVER_ensures(pErg->Typ == TempFloat && SAME_F(pErg->Contents.Float, g_x_f))

#ifdef VERIF_CBMC

/* callee of AddOp, replaced by this (assumed) contract: with no relocations on
 * either side nothing is merged.  Relocatable segments are not used by any target
 * in the tree (DESIGN.md section 4). */
#include "asmrelocs.h"
PRelocEntry MergeRelocs(PRelocEntry* list1, PRelocEntry* list2, Boolean Add)
    __CPROVER_requires(*list1 == NULL && *list2 == NULL)
    __CPROVER_ensures(__CPROVER_return_value == NULL)
    __CPROVER_assigns();

/* ---- integer only ------------------------------------------------------------ */
DECL_OP(OneComplOp)
    OP_PRE __CPROVER_requires(pRVal->Typ == TempInt)
    INT_RESULT(~OLD_RI) NO_ERR OP_FRAME;

/* the manual defines logical shifts; counts outside 0..63 are not defined by it */
DECL_OP(ShLeftOp)
    INT_INT_PRE __CPROVER_requires(pRVal->Contents.Int >= 0 && pRVal->Contents.Int < 64)
    INT_RESULT(SPEC_SHL(OLD_LI, OLD_RI)) NO_ERR POST_PROMOTE_LR OP_FRAME;

DECL_OP(ShRightOp)
    INT_INT_PRE __CPROVER_requires(pRVal->Contents.Int >= 0 && pRVal->Contents.Int < 64)
#ifdef VERIF_EXCLUDE_C08_SHR_NEG
    __CPROVER_requires(pLVal->Contents.Int >= 0 || pRVal->Contents.Int == 0)
#endif
#ifdef VERIF_ONLY_C08_SHR_NEG
    __CPROVER_requires(pLVal->Contents.Int < 0 && pRVal->Contents.Int > 0)
#endif
    INT_RESULT(SPEC_SHR(OLD_LI, OLD_RI)) NO_ERR POST_PROMOTE_LR OP_FRAME;

DECL_OP(BitMirrorOp)
    INT_INT_PRE
    /* width 1..32: bit gk_bit of the result is the mirrored / unchanged bit */
    __CPROVER_ensures(!(OLD_RI >= 1 && OLD_RI <= 32) ||
        (pErg->Typ == TempInt && g_err_cnt == __CPROVER_old(g_err_cnt) &&
         ((U64(pErg->Contents.Int) >> gk_bit) & 1u) == SPEC_MIRROR_BIT(OLD_LI, OLD_RI, gk_bit)))
    /* outside: error, no value */
    __CPROVER_ensures((OLD_RI >= 1 && OLD_RI <= 32) ||
        (pErg->Typ == TempNone && g_err_cnt == __CPROVER_old(g_err_cnt) + 1 && g_err_last == ErrNum_OverRange))
    POST_PROMOTE_LR OP_FRAME;

DECL_OP(BinAndOp) INT_INT_PRE INT_RESULT(OLD_LI & OLD_RI) NO_ERR POST_PROMOTE_LR OP_FRAME;
DECL_OP(BinOrOp)  INT_INT_PRE INT_RESULT(OLD_LI | OLD_RI) NO_ERR POST_PROMOTE_LR OP_FRAME;
DECL_OP(BinXorOp) INT_INT_PRE INT_RESULT(OLD_LI ^ OLD_RI) NO_ERR POST_PROMOTE_LR OP_FRAME;

DECL_OP(ModOp)
    INT_INT_PRE
    __CPROVER_requires(pRVal->Contents.Int == 0 || pRVal->Contents.Int == -1 || g_x_i == OLD_LI % OLD_RI)
    __CPROVER_ensures(OLD_RI == 0 || OLD_RI == -1 ||
        (pErg->Typ == TempInt && pErg->Contents.Int == g_x_i && g_err_cnt == __CPROVER_old(g_err_cnt)))
    __CPROVER_ensures(OLD_RI != -1 ||
        (pErg->Typ == TempInt && pErg->Contents.Int == 0 && g_err_cnt == __CPROVER_old(g_err_cnt)))
    __CPROVER_ensures(OLD_RI != 0 ||
        (pErg->Typ == TempNone && g_err_cnt == __CPROVER_old(g_err_cnt) + 1 && g_err_last == ErrNum_DivByZero))
    POST_PROMOTE_LR OP_FRAME;

DECL_OP(LogNotOp)
    OP_PRE __CPROVER_requires(pRVal->Typ == TempInt)
    INT_RESULT((OLD_RI == 0) ? 1 : 0) NO_ERR OP_FRAME;
DECL_OP(LogAndOp) INT_INT_PRE INT_RESULT(((OLD_LI != 0) && (OLD_RI != 0)) ? 1 : 0) NO_ERR POST_PROMOTE_LR OP_FRAME;
DECL_OP(LogOrOp)  INT_INT_PRE INT_RESULT(((OLD_LI != 0) || (OLD_RI != 0)) ? 1 : 0) NO_ERR POST_PROMOTE_LR OP_FRAME;
DECL_OP(LogXorOp) INT_INT_PRE INT_RESULT(((OLD_LI != 0) != (OLD_RI != 0)) ? 1 : 0) NO_ERR POST_PROMOTE_LR OP_FRAME;

/* ---- integer or float: the harness fixes the type pair via VERIF_OPT_FLOAT ---- */
#ifndef VERIF_OPT_FLOAT
#    define ARITH_PRE INT_INT_PRE
#    define ARITH_RES(iexpr, fexpr) INT_RESULT_OLD(iexpr)
#    define CMP_RES(op) INT_RESULT((OLD_LI op OLD_RI) ? 1 : 0)
#else
#    define ARITH_PRE FLT_FLT_PRE
#    define ARITH_RES(iexpr, fexpr) FLT_RESULT(fexpr)
#    define CMP_RES(op) INT_RESULT((OLD_LF op OLD_RF) ? 1 : 0)
#endif

DECL_OP(MultOp) ARITH_PRE ARITH_RES(SPEC_MUL(OLD_LI, OLD_RI), OLD_LF * OLD_RF) NO_ERR POST_PROMOTE_LR OP_FRAME;
DECL_OP(SubOp)  ARITH_PRE ARITH_RES(SPEC_SUB(OLD_LI, OLD_RI), OLD_LF - OLD_RF) NO_ERR POST_PROMOTE_LR OP_FRAME;

DECL_OP(AddOp)
    ARITH_PRE
    __CPROVER_requires(pLVal->Relocs == NULL && pRVal->Relocs == NULL)
    ARITH_RES(SPEC_ADD(OLD_LI, OLD_RI), OLD_LF + OLD_RF) NO_ERR POST_PROMOTE_LR OP_FRAME;

DECL_OP(DivOp)
    ARITH_PRE
#ifndef VERIF_OPT_FLOAT
    __CPROVER_requires(pRVal->Contents.Int == 0 || pRVal->Contents.Int == -1 || g_x_i == OLD_LI / OLD_RI)
    __CPROVER_ensures(OLD_RI == 0 || OLD_RI == -1 ||
        (pErg->Typ == TempInt && pErg->Contents.Int == g_x_i && g_err_cnt == __CPROVER_old(g_err_cnt)))
    /* -2^63 / -1 wraps (two's complement) instead of trapping */
    __CPROVER_ensures(OLD_RI != -1 ||
        (pErg->Typ == TempInt && pErg->Contents.Int == S64(0ull - U64(OLD_LI)) && g_err_cnt == __CPROVER_old(g_err_cnt)))
    __CPROVER_ensures(OLD_RI != 0 ||
        (pErg->Typ == TempNone && g_err_cnt == __CPROVER_old(g_err_cnt) + 1 && g_err_last == ErrNum_DivByZero))
#else
    __CPROVER_requires(SAME_F(g_x_f, OLD_LF / OLD_RF))
    __CPROVER_ensures(OLD_RF == 0.0 ||
        (pErg->Typ == TempFloat && g_err_cnt == __CPROVER_old(g_err_cnt) && SAME_F(pErg->Contents.Float, g_x_f)))
    __CPROVER_ensures(OLD_RF != 0.0 ||
        (pErg->Typ == TempNone && g_err_cnt == __CPROVER_old(g_err_cnt) + 1 && g_err_last == ErrNum_DivByZero))
#endif
    POST_PROMOTE_LR OP_FRAME;

DECL_OP(EqOp)   ARITH_PRE CMP_RES(==) NO_ERR POST_PROMOTE_LR OP_FRAME;
DECL_OP(UneqOp) ARITH_PRE CMP_RES(!=) NO_ERR POST_PROMOTE_LR OP_FRAME;
DECL_OP(GtOp)   ARITH_PRE CMP_RES(>)  NO_ERR POST_PROMOTE_LR OP_FRAME;
DECL_OP(LtOp)   ARITH_PRE CMP_RES(<)  NO_ERR POST_PROMOTE_LR OP_FRAME;
DECL_OP(GeOp)   ARITH_PRE CMP_RES(>=) NO_ERR POST_PROMOTE_LR OP_FRAME;
DECL_OP(LeOp)   ARITH_PRE CMP_RES(<=) NO_ERR POST_PROMOTE_LR OP_FRAME;

#endif /* VERIF_CBMC */
#endif
