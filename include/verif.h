/* verif.h -- macros shared by every proof harness.
 *
 * Two build modes of the same harness text:
 *   - CBMC (default): inputs are nondeterministic, contracts are enforced by
 *     goto-instrument --dfcc, VREACH() is an assertion that MUST fail.
 *   - native (-DVERIF_NATIVE): the harness is compiled with gcc + sanitizers and
 *     executed on the concrete input values of a CBMC counterexample (replay).
 */
#ifndef VERIF_H
#define VERIF_H

#include <stddef.h>
#include <stdint.h>

#ifndef VERIF_NATIVE

long long          nondet_i64(void);
unsigned long long nondet_u64(void);
int                nondet_int(void);
unsigned           nondet_uint(void);
long               nondet_long(void);
unsigned long      nondet_ulong(void);
short              nondet_short(void);
unsigned short     nondet_ushort(void);
char               nondet_char(void);
signed char        nondet_schar(void);
unsigned char      nondet_uchar(void);
_Bool              nondet_bool(void);
double             nondet_double(void);
float              nondet_float(void);
size_t             nondet_size_t(void);
void*              nondet_ptr(void);

#    define VND(lhs, T)      ((lhs) = nondet_##T())
#    define VASSUME(c)       __CPROVER_assume(c)
#    define VASSERT(c, msg)  __CPROVER_assert((c), msg)
#    define VREACH(tag)      __CPROVER_assert(0, "REACH:" tag)
/* nondeterministic contents for a byte buffer (heap or stack object) */
#    define VND_BYTES(p, n)  __CPROVER_havoc_slice((p), (n))

#else /* VERIF_NATIVE */

#    include <stdio.h>
#    include <stdlib.h>
#    include <string.h>

unsigned long long vnd_next(char const* lhs, char const* file, int line, int is_fp);
double             vnd_next_fp(char const* lhs, char const* file, int line);
void               vnd_bytes(void* p, size_t n, char const* lhs, char const* file, int line);
void               vnd_fail(char const* kind, char const* msg, char const* file, int line);

typedef long long          vnd_t_i64;
typedef unsigned long long vnd_t_u64;
typedef int                vnd_t_int;
typedef unsigned           vnd_t_uint;
typedef long               vnd_t_long;
typedef unsigned long      vnd_t_ulong;
typedef short              vnd_t_short;
typedef unsigned short     vnd_t_ushort;
typedef char               vnd_t_char;
typedef signed char        vnd_t_schar;
typedef unsigned char      vnd_t_uchar;
typedef _Bool              vnd_t_bool;
typedef size_t             vnd_t_size_t;

#    define VND_IS_FP_i64    0
#    define VND_IS_FP_u64    0
#    define VND_IS_FP_int    0
#    define VND_IS_FP_uint   0
#    define VND_IS_FP_long   0
#    define VND_IS_FP_ulong  0
#    define VND_IS_FP_short  0
#    define VND_IS_FP_ushort 0
#    define VND_IS_FP_char   0
#    define VND_IS_FP_schar  0
#    define VND_IS_FP_uchar  0
#    define VND_IS_FP_bool   0
#    define VND_IS_FP_size_t 0
#    define VND_double(lhs)  ((lhs) = vnd_next_fp(#lhs, __FILE__, __LINE__))
#    define VND_INT(lhs, T)  ((lhs) = (vnd_t_##T)vnd_next(#lhs, __FILE__, __LINE__, 0))
#    define VND_SEL_double(lhs, T) VND_double(lhs)
#    define VND(lhs, T)      VND_X_##T(lhs)
#    define VND_X_i64(l)     VND_INT(l, i64)
#    define VND_X_u64(l)     VND_INT(l, u64)
#    define VND_X_int(l)     VND_INT(l, int)
#    define VND_X_uint(l)    VND_INT(l, uint)
#    define VND_X_long(l)    VND_INT(l, long)
#    define VND_X_ulong(l)   VND_INT(l, ulong)
#    define VND_X_short(l)   VND_INT(l, short)
#    define VND_X_ushort(l)  VND_INT(l, ushort)
#    define VND_X_char(l)    VND_INT(l, char)
#    define VND_X_schar(l)   VND_INT(l, schar)
#    define VND_X_uchar(l)   VND_INT(l, uchar)
#    define VND_X_bool(l)    VND_INT(l, bool)
#    define VND_X_size_t(l)  VND_INT(l, size_t)
#    define VND_X_double(l)  VND_double(l)

#    define VASSUME(c)                                                       \
        do {                                                                 \
            if (!(c))                                                        \
                vnd_fail("ASSUME", #c, __FILE__, __LINE__);                  \
        } while (0)
#    define VASSERT(c, msg)                                                  \
        do {                                                                 \
            if (!(c))                                                        \
                vnd_fail("ASSERT", msg, __FILE__, __LINE__);                 \
        } while (0)
#    define VREACH(tag)     ((void)0)
#    define VND_BYTES(p, n) vnd_bytes((p), (n), #p, __FILE__, __LINE__)

/* contract syntax disappears in the native build; the harness re-checks the
 * postcondition through the POST_ macros (see contracts/*.h) */
#    define __CPROVER_requires(x)
#    define __CPROVER_ensures(x)
#    define __CPROVER_assigns(...)
#    define __CPROVER_frees(...)
#    define __CPROVER_loop_invariant(x)
#    define __CPROVER_decreases(x)
#    define __CPROVER_assume(c)        VASSUME(c)
#    define __CPROVER_assert(c, m)     VASSERT(c, m)
#    define __CPROVER_havoc_slice(p, n) vnd_bytes((p), (n), #p, __FILE__, __LINE__)

#endif /* VERIF_NATIVE */

#if !defined(VERIF_NATIVE) && defined(VERIF_CBMC)
/* DFCC unrolls the loops of its write-set library up to the largest *function* contract's
 * assigns clause; loop contracts with more targets than that then fail an internal unwinding
 * assertion.  Harnesses whose loop contracts have many targets call verif_bump() once and list
 * it under replace=: its contract's 32-target assigns clause raises the bound. */
extern char verif_pad[32];
#define VP(i) verif_pad[i]
void verif_bump(void)
    __CPROVER_requires(1) __CPROVER_ensures(1)
    __CPROVER_assigns(VP(0), VP(1), VP(2), VP(3), VP(4), VP(5), VP(6), VP(7), VP(8), VP(9), VP(10), VP(11), VP(12), VP(13), VP(14), VP(15),
                      VP(16), VP(17), VP(18), VP(19), VP(20), VP(21), VP(22), VP(23), VP(24), VP(25), VP(26), VP(27), VP(28), VP(29), VP(30), VP(31));
#define VERIF_BUMP_DEFINE char verif_pad[32];
#else
#define VERIF_BUMP_DEFINE
static inline void verif_bump(void) {}
#endif

/* post-condition check written in the harness after the call.  Under CBMC the same
 * expression is ALSO the function contract's ensures clause (enforced by DFCC); the
 * harness copy carries the property id in its name and drives the native replay. */
#define VPOST(c, msg) VASSERT(c, msg)

#endif /* VERIF_H */
