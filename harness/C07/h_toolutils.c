/* C07/C05/C06 harness: record-header and filter helpers of the real /repo/toolutils.c */
#include "verif.h"
#include <stdio.h>
#include <stdlib.h>
#include <string.h>
#include <errno.h>
#include "stubs/gfile.c"
#include "contracts/toolutils.contracts.h"
#include "nlmessages.h"
#include "ioerrs.h"
#include "strutil.h"

unsigned gk_idx;
long     g_o_pos0, g_o_pos1, g_o_len1;
int      g_exit_code;

#undef errno
#define errno verif_errno
static char msg_txt[2];
char* catgetmessage(PMsgCat Catalog, int Num) { (void)Catalog; (void)Num; return msg_txt; }
char* GetErrorMsg(int number) { (void)number; return msg_txt; }
static int mon_print0(void) { return 0; }
#define fprintf(...) mon_print0()
#define printf(...) mon_print0()
static void verif_exit(int code) {
    g_exit_code = code;
#ifdef VERIF_EXIT_REACH
    if (code == 3) VREACH("format error exit");
#endif
    VASSUME(0);
}
#define exit(c) verif_exit(c)

#define ConstLongInt(a, b, c) verif_ConstLongInt((a), (b), (c))
#ifdef VERIF_FILTERLIST /* ASCII stand-ins of strutil.c for the one-id argument text */
size_t strmaxcpy(char* dest, char const* src, size_t Max) { size_t n = 0; if (!Max) return 0; while (n < 3 && src[n] && n + 1 < Max) { dest[n] = src[n]; n++; } dest[n] = 0; return n; }
char* strmov(char* pDest, char const* pSrc) { int n = 0; while (n < 3 && pSrc[n]) { pDest[n] = pSrc[n]; n++; } pDest[n] = 0; return pDest; }
#endif
LargeInt verif_ConstLongInt(char const* inp, Boolean* pErr, LongInt Base);
#include "toolutils.c" /* the real /repo/toolutils.c */
#undef ConstLongInt
#undef exit
#undef fprintf
#undef printf

#define NFILTER ((int)(sizeof(FilterBytes) / sizeof(FilterBytes[0])))
static void mk_file(int i) {
    VND(gf[i].len, long); VND(gf[i].pos, long); VND(gf[i].w_off, long); VND(gf[i].w_val, uchar);
    VASSUME(gf[i].len >= 0 && gf[i].len <= 0x7fffffff && gf[i].pos >= 0 && gf[i].pos <= gf[i].len && gf[i].w_off >= 0);
    gf[i].is_open = 1; gf[i].fail_writes = 0; gf[i].n_write_calls = 0; gf[i].n_read_calls = 0; gf[i].bytes_written = 0; gf[i].io_error = 0;
}
static void mk_common(void) {
    gf_reset();
    mk_file(0); mk_file(1);
    verif_errno = 0; g_exit_code = -1; msg_txt[0] = 'm'; msg_txt[1] = 0;
    g_o_pos0 = gf[0].pos; g_o_pos1 = gf[1].pos; g_o_len1 = gf[1].len;
}

void h_FilterOK(void) {
    Byte h; Boolean r; int i;
    VND(DoFilter, uchar); VND(FilterCnt, int); VND(h, uchar);
    VASSUME(DoFilter <= 1 && FilterCnt >= 0 && FilterCnt <= NFILTER);
    for (i = 0; i < NFILTER; i++) VND(FilterBytes[i], uchar);
    VND(gk_idx, uint);
    VASSUME(gk_idx < NFILTER);
    r = FilterOK(h);
    VPOST(DoFilter || r, "C07: without -f every record passes");
    VPOST(!(DoFilter && gk_idx < (unsigned)FilterCnt && FilterBytes[gk_idx] == h) || r, "C07: a listed CPU id passes the filter");
    VREACH("end");
}

/* the converse direction: an id that is in no slot of the list is rejected */
void h_FilterOK_reject(void) {
    Byte h; Boolean r; int i;
    DoFilter = True;
    VND(FilterCnt, int); VND(h, uchar);
    VASSUME(FilterCnt >= 0 && FilterCnt <= NFILTER);
    for (i = 0; i < NFILTER; i++) { VND(FilterBytes[i], uchar); VASSUME(FilterBytes[i] != h); }
    gk_idx = 0;
    r = FilterOK(h);
    VPOST(!r, "C07: an id that is not listed is rejected");
    VREACH("end");
}

void h_SkipRecord(void) {
    Byte h;
    mk_common();
    VND(h, uchar);
    SkipRecord(h, msg_txt, GF_FILE(0));
    VPOST(gf[0].pos >= g_o_pos0, "C03: skipping a record never moves backwards in the file");
    VPOST(h != FileHeaderStartAdr || gf[0].pos == g_o_pos0 + 4, "C07: an entry record is 4 bytes");
    VREACH("end");
}

/* ReadRecordHeader: the fields are the bytes of the file (witness byte) */
void h_ReadRecordHeader(void) {
    Byte h, cpu, seg, gran; long p0;
    mk_common();
    VASSUME(gf[0].pos + 4 <= gf[0].len);
    p0 = gf[0].pos;
    VND(cpu, uchar); VND(seg, uchar); VND(gran, uchar);
    ReadRecordHeader(&h, &cpu, &seg, &gran, msg_txt, GF_FILE(0));
    if (gf[0].w_off == p0) {
        Byte b0 = gf[0].w_val;
        VPOST(!IS_LONG_HDR(b0) || (h == b0 && gf[0].pos == p0 + 4), "C07: long record header is 4 bytes (type, CPU, segment, granularity)");
        VPOST(!(b0 == FileHeaderEnd || b0 == FileHeaderStartAdr) || (h == b0 && gf[0].pos == p0 + 1), "C07: end/entry record header is one byte");
        VPOST(!(b0 <= 0x7f && b0 != 0) || (h == FileHeaderDataRec && cpu == b0 && seg == SegCode && gran == Granularity(b0, SegCode) && gf[0].pos == p0 + 1),
              "C07: short record header = CPU id, code segment, default granularity");
        VREACH("first");
    }
    if (gf[0].w_off > p0 && gf[0].w_off < p0 + 4 && h != FileHeaderEnd && h != FileHeaderStartAdr && gf[0].pos == p0 + 4) {
        VPOST(gf[0].w_off != p0 + 1 || cpu == gf[0].w_val, "C07: CPU field is byte 1 of the header");
        VPOST(gf[0].w_off != p0 + 2 || seg == gf[0].w_val, "C07: segment field is byte 2 of the header");
        VPOST(gf[0].w_off != p0 + 3 || gran == gf[0].w_val, "C07: granularity field is byte 3 of the header");
        VREACH("fields");
    }
    VPOST(!(IS_LONG_HDR(h) && gf[0].pos == p0 + 4) || gran != 0, "C03: a record header with granularity 0 is a format error, it is never handed to the tool (division by the granularity)");
    VREACH("end");
}

/* a file that ends inside a record header (or right where one is due) is a format or I/O error: ReadRecordHeader does not
 * return with a stale header, which made the tools' record loops spin forever */
void h_ReadRecordHeader_trunc(void) {
    Byte h, cpu, seg, gran; long p0;
    mk_common();
    p0 = gf[0].pos;
    VND(h, uchar); VND(cpu, uchar); VND(seg, uchar); VND(gran, uchar);
    VASSUME(p0 == gf[0].len || (p0 + 4 > gf[0].len && gf[0].w_off == p0 && IS_LONG_HDR(gf[0].w_val)));
    ReadRecordHeader(&h, &cpu, &seg, &gran, msg_txt, GF_FILE(0));
    VPOST(0, "C03: a code file that ends inside a record header ends the tool with an error status, the header is not returned");
}
/* WriteRecordHeader: long form writes the four fields, short form the CPU id only, and a
 * failing write is noticed (ChkIO -> exit 2) */
void h_WriteRecordHeader(void) {
    Byte h, cpu, seg, gran; long p0; int shortform;
    mk_common();
    VND(h, uchar); VND(cpu, uchar); VND(seg, uchar); VND(gran, uchar);
    VASSUME(h == FileHeaderEnd || h == FileHeaderStartAdr || h == FileHeaderDataRec);
    VND(gf[1].fail_writes, int);
    p0 = gf[1].pos;
    VASSUME(gf[1].w_off >= p0 && gf[1].w_off < p0 + 4);
    shortform = (h == FileHeaderDataRec) && (seg == SegCode) && (gran == Granularity(cpu, seg)) && (cpu < 0x80);
    WriteRecordHeader(&h, &cpu, &seg, &gran, msg_txt, GF_FILE(1));
    /* returning means every byte was written */
    VPOST(!gf[1].fail_writes, "C07: a failing header write ends the program (I/O error status), it is not ignored");
    if (h == FileHeaderEnd || h == FileHeaderStartAdr) {
        VPOST(gf[1].pos == p0 + 1 && (gf[1].w_off != p0 || gf[1].w_val == h), "C07: end/entry header is written as one byte");
        VREACH("single");
    } else if (shortform) {
        VPOST(gf[1].pos == p0 + 1 && (gf[1].w_off != p0 || gf[1].w_val == cpu), "C07: short header = CPU id");
        VREACH("short");
    } else {
        VPOST(gf[1].pos == p0 + 4, "C07: long header is 4 bytes");
        VPOST(gf[1].w_off != p0 || gf[1].w_val == h, "C07: long header byte 0 = record type");
        VPOST(gf[1].w_off != p0 + 1 || gf[1].w_val == cpu, "C07: long header byte 1 = CPU");
        VPOST(gf[1].w_off != p0 + 2 || gf[1].w_val == seg, "C07: long header byte 2 = segment");
        VPOST(gf[1].w_off != p0 + 3 || gf[1].w_val == gran, "C07: long header byte 3 = granularity");
        VREACH("long");
    }
}

/* -f list maintenance (CMD_FilterList), one id per call: for every state of the list (any fill level up to the array size, any
 * contents) the update stays inside the array; a new id is entered once, a known one is not duplicated, a negated one is removed;
 * a full list refuses further ids instead of writing behind the array (p2bin -f with 130 ids used to crash). */
static long long g_cl_val; static int g_cl_ok;
LargeInt verif_ConstLongInt(char const* inp, Boolean* pErr, LongInt Base) { (void)inp; (void)Base; *pErr = (Boolean)(g_cl_ok != 0); return g_cl_val; }
void h_CMD_FilterList(void) {
    char arg[2]; Boolean neg; int i, cnt0, present, p, k; CMDResult r; Byte id, wk, last;
    arg[0] = '7'; arg[1] = 0;
    VND(FilterCnt, int); VASSUME(FilterCnt >= 0 && FilterCnt <= NFILTER);
    for (i = 0; i < NFILTER; i++) VND(FilterBytes[i], uchar);
    VND(neg, uchar); VASSUME(neg <= 1); VND(g_cl_val, i64); g_cl_ok = 1;
    id = (Byte)g_cl_val; cnt0 = FilterCnt;
    /* is the id in the list?  chosen, then imposed on the list (cheaper than computing it from 256 symbolic entries) */
    VND(present, int); VND(p, int);
    if (present) { VASSUME(p >= 0 && p < cnt0 && FilterBytes[p] == id); gk_idx = (unsigned)p; }
    else { for (i = 0; i < NFILTER; i++) VASSUME(!(i < cnt0) || FilterBytes[i] != id); VND(gk_idx, uint); }
    VND(k, int); VASSUME(k >= 0 && k < NFILTER); wk = FilterBytes[k]; last = cnt0 > 0 ? FilterBytes[cnt0 - 1] : 0;      /* witness entry */
    r = CMD_FilterList(neg, arg);
    VPOST(FilterCnt >= 0 && FilterCnt <= NFILTER, "C03: the -f list never grows beyond its array");
    if (!neg && !present && cnt0 < NFILTER) { VPOST(r == CMDArg && FilterCnt == cnt0 + 1 && FilterBytes[cnt0] == id, "C07: a new CPU id is appended to the -f list"); VREACH("added"); }
    if (!neg && !present && cnt0 == NFILTER) { VPOST(r == CMDErr && FilterCnt == cnt0, "C03: a full -f list refuses further ids"); VREACH("full"); }
    if (!neg && present) { VPOST(r == CMDArg && FilterCnt == cnt0, "C07: a CPU id already in the -f list is not entered twice"); VREACH("dup"); }
    if (neg && !present) VPOST(FilterCnt == cnt0, "C07: removing an id that is not listed changes nothing");
    if (neg && present) { VPOST(FilterCnt == cnt0 - 1, "C07: -f with a negated id removes one entry"); VREACH("removed"); }
    if (r == CMDArg) VPOST((DoFilter != 0) == (FilterCnt != 0), "C07: filtering is active iff the list is not empty");
    if (k < cnt0) {
        if (!neg || !present) VPOST(FilterBytes[k] == wk, "C07: the other ids stay in the -f list");
        else VPOST(wk == id || k == cnt0 - 1 || FilterBytes[k] == wk, "C07: removing one id keeps the others (the last entry moves into the gap)");
    }
}

/* ReadRelocInfo (relocation / export table of a code file, printed by plist, used by alink): whatever the file holds, the
 * table that is handed out is safe to use: every name lies inside the string table and the string table ends with NUL
 * (names are printed with %s).  A record that is cut short or points outside its strings yields no table (NULL), which the
 * callers must treat as a format error.  Bounded: at most one relocation and one export entry, strings of at most 4 bytes. */
#ifdef VERIF_NATIVE
#define IN_OBJ(p, base, n) ((char const*)(p) >= (char const*)(base) && (char const*)(p) < (char const*)(base) + (n))
#else
#define IN_OBJ(p, base, n) (__CPROVER_same_object((p), (base)) && (size_t)(__CPROVER_POINTER_OFFSET(p) - __CPROVER_POINTER_OFFSET(base)) < (size_t)(n))
#endif
void h_ReadRelocInfo(void) {
    unsigned rc, ec, sl, sp1, sp2; PRelocInfo r;
    mk_common(); gf[0].pos = 0; gf_cell_mode = 0;
    VND(rc, uint); VND(ec, uint); VND(sl, uint); VND(sp1, uint); VND(sp2, uint);
    VASSUME(rc <= 1 && ec <= 1 && sl <= 4);
    gf_script_i = 0; gf_script_n = 0;
    gf_script[gf_script_n++] = rc; gf_script[gf_script_n++] = ec; gf_script[gf_script_n++] = sl;
    if (rc) { gf_script[gf_script_n++] = 0x1234; gf_script[gf_script_n++] = sp1; gf_script[gf_script_n++] = 0; }
    if (ec) { gf_script[gf_script_n++] = sp2; gf_script[gf_script_n++] = 0; gf_script[gf_script_n++] = 0x55; }
    r = ReadRelocInfo(GF_FILE(0));
    if (r) {
        VPOST(r->RelocCount == rc && r->ExportCount == ec, "C07: the relocation table has the counts the record states");
        if (rc) VPOST(IN_OBJ(r->RelocEntries[0].Name, r->Strings, sl), "C03: a relocation entry's name lies inside the record's string table");
        if (ec) VPOST(IN_OBJ(r->ExportEntries[0].Name, r->Strings, sl), "C03: an export entry's name lies inside the record's string table");
        if (rc || ec) VPOST(sl >= 1 && r->Strings[sl - 1] == 0, "C03: the string table of a relocation record is NUL-terminated (names are printed as C strings)");
        VREACH("table");
    } else {
        VREACH("rejected");
    }
}
