/* C20 harness: the position text of a diagnostic (real /repo/as.c GetErrorPos with the real *_GetPos functions).
 * Native format: the chain of input levels from the innermost include file inward, outermost first:
 *   file(line) macro(line) REPT n(line) ...      (levels outside the innermost include file are not named)
 * -gnuerrors format: "In file included from <includer>,\n from <its includer>:\n" followed by the innermost file:line
 * (macro / repetition levels are not named).
 * The print calls are observed by a monitor that renders every level as a two-character token (level letter + line digit),
 * so that the composition - which levels, in which order - is what is checked; the number formatting is not. */
#include "verif.h"
#include <stdio.h>
#include <stdlib.h>
#include <string.h>
#include <stdarg.h>
#include "stdinc.h"
#include "asmdef.h"
#include "asmsub.h"
#include "asmmac.h"
#include "dynstr.h"
#include "strutil.h"
#include "stubs/gerr.h"
#include "stringlists.h"
#include "nlmessages.h"
#include "as.rsc"

static char msg1[2] = "F", msgn[2] = "N", msgx[2] = "?";
char* getmessage(int Num) { return Num == Num_GNUErrorMsg1 ? msg1 : Num == Num_GNUErrorMsgN ? msgn : msgx; }
char const* NamePart(char const* Name) { return Name; }
Integer SaveIFs(void) { return 3; }
static size_t slen(char const* p) { size_t n = 0; while (n < 14 && p[n]) n++; return n; }
/* strmaxprep by its contract (verified on the real strutil.c in str_strmaxprep): fitting prefix of src in front of dest */
void strmaxprep(char* d, char const* s, size_t max) {
    char tmp[16]; size_t sl = slen(s), dl = slen(d), i;
    VASSERT(dl + 1 <= max, "C03: strmaxprep destination holds a string inside its capacity");
    if (sl > max - dl - 1) sl = max - dl - 1;
    for (i = 0; i <= dl && i < 16; i++) tmp[i] = d[i];
    for (i = 0; i < sl; i++) d[i] = s[i];
    for (i = 0; i <= dl && i < 16; i++) d[sl + i] = tmp[i];
}
size_t strmaxcat(char* Dest, char const* Src, size_t MaxLen) { size_t d = slen(Dest), n = 0; if (d >= MaxLen) return 0; while (n < 12 && Src[n] && d + 1 < MaxLen) Dest[d++] = Src[n++]; Dest[d] = 0; return n; }
size_t strmaxcpy(char* dest, char const* src, size_t Max) { size_t n = 0; if (!Max) return 0; while (n < 12 && src[n] && n + 1 < Max) { dest[n] = src[n]; n++; } dest[n] = 0; return n; }
static int g_bad_fmt;
static void put2(char* d, size_t n, char a, unsigned long line) { if (n >= 3) { d[0] = a; d[1] = (char)('0' + line % 10); d[2] = 0; } }
/* position formats: "%s(%lu) " (macro / include, native), "%s:%lu" (include, gnu), "REPT %lu(%lu)", "%s:%s(%ld) " (IRP);
 * composition formats of GetErrorPos: "%s %s" */
static int mon_snprintf(char* d, size_t n, char const* fmt, ...) {
    va_list ap; va_start(ap, fmt);
    if (fmt[0] == '%' && fmt[1] == 's' && (fmt[2] == '(' || (fmt[2] == ':' && fmt[3] == '%' && fmt[4] == 'l'))) { char const* nm = va_arg(ap, char const*); unsigned long l = va_arg(ap, unsigned long); put2(d, n, nm[0], l); }
    else if (fmt[0] == 'R') { unsigned long it = va_arg(ap, unsigned long); unsigned long l = va_arg(ap, unsigned long); (void)it; put2(d, n, 'R', l); }
    else if (fmt[0] == '%' && fmt[1] == 's' && fmt[2] == ':' && fmt[3] == '%' && fmt[4] == 's') { char const* nm = va_arg(ap, char const*); char const* par = va_arg(ap, char const*); long l = va_arg(ap, long); (void)nm; (void)par; put2(d, n, 'I', (unsigned long)l); }
    else if (fmt[0] == '%' && fmt[1] == 's' && fmt[2] == ' ') { char const* a = va_arg(ap, char const*); char const* b = va_arg(ap, char const*); size_t k = 0, i; for (i = 0; i < 4 && a[i]; i++) d[k++] = a[i]; for (i = 0; i < 4 && b[i]; i++) d[k++] = b[i]; d[k] = 0; VASSERT(k < n, "C03: position text fits its buffer"); }
    else g_bad_fmt++;
    va_end(ap);
    return 0;
}
/* ",\n%s %s"  ":\n"  "%s" */
static int mon_snprcatf(char* d, size_t n, char const* fmt, ...) {
    va_list ap; size_t k = slen(d), i; va_start(ap, fmt);
    if (fmt[0] == ',') { char const* a = va_arg(ap, char const*); char const* b = va_arg(ap, char const*); d[k++] = ','; for (i = 0; i < 4 && a[i]; i++) d[k++] = a[i]; for (i = 0; i < 4 && b[i]; i++) d[k++] = b[i]; }
    else if (fmt[0] == ':') { d[k++] = ':'; }
    else if (fmt[0] == '%' && fmt[1] == 's' && fmt[2] == 0) { char const* a = va_arg(ap, char const*); for (i = 0; i < 4 && a[i]; i++) d[k++] = a[i]; }
    else g_bad_fmt++;
    d[k] = 0;
    VASSERT(k < n, "C03: position text fits its buffer");
    va_end(ap);
    return 0;
}
static int mon0(void) { return 0; }
#define as_snprintf mon_snprintf
#define as_snprcatf mon_snprcatf
#define printf(...) mon0()
#define fprintf(...) mon0()
#define main as_main
#include "contracts/loop_defaults.h"
#include "as.c" /* the real /repo/as.c */
#undef main
#undef as_snprintf
#undef as_snprcatf

/* chain of 0..3 input levels, innermost first; kinds arbitrary: M macro, R rept, I irp, f include file.
 * The outermost level of a real chain is always a file; chains that do not end in one are covered as well. */
static TInputTag lv[3]; static char nm[3][2]; static StringRec par[3]; static char partxt[3][2];
void h_GetErrorPos(void) {
    int n, i, kind[3]; char want[24], *r; size_t k = 0; char tok[3][3]; int inner = -1;
    n = VERIF_LEVELS; GNUErrors = VERIF_GNU;   /* one group per chain length and format */
    for (i = 0; i < 3; i++) {
        memset(&lv[i], 0, sizeof(lv[i]));
        VND(kind[i], int); VASSUME(kind[i] >= 0 && kind[i] <= 3);
        VND(lv[i].LineZ, int); VASSUME(lv[i].LineZ >= 1 && lv[i].LineZ <= 1000000);
        VND(lv[i].ParZ, int); VASSUME(lv[i].ParZ >= 1 && lv[i].ParZ <= 3);
        nm[i][0] = (char)('a' + i); nm[i][1] = 0; lv[i].SpecName.str.p_str = nm[i]; lv[i].SpecName.str.capacity = 2;
        partxt[i][0] = 'p'; partxt[i][1] = 0; par[i].Content = partxt[i]; par[i].Next = (i < 2) ? &par[i + 1] : NULL; lv[i].Params = &par[0]; lv[i].ParCnt = 3; lv[i].ParIter = 1;
        lv[i].GetPos = kind[i] == 0 ? MACRO_GetPos : kind[i] == 1 ? REPT_GetPos : kind[i] == 2 ? IRP_GetPos : INCLUDE_GetPos;
        lv[i].Processor = kind[i] == 0 ? MACRO_Processor : kind[i] == 1 ? REPT_Processor : kind[i] == 2 ? IRP_Processor : INCLUDE_Processor;
        lv[i].LineCnt = 1000000; VASSUME(kind[i] == 3 || kind[i] == 0 || lv[i].LineZ >= 2);   /* the step back over a body end is the subject of pos_REPT_GetPos / pos_IRP_GetPos */
        lv[i].Next = (i + 1 < n) ? &lv[i + 1] : NULL;
        /* the token the monitor renders for this level */
        tok[i][0] = kind[i] == 0 ? nm[i][0] : kind[i] == 1 ? 'R' : kind[i] == 2 ? 'I' : nm[i][0];
        tok[i][1] = (char)('0' + (unsigned long)((kind[i] == 3) ? lv[i].LineZ : lv[i].LineZ - 1) % 10); tok[i][2] = 0;
    }
    FirstInputTag = n ? &lv[0] : NULL;
    g_bad_fmt = 0;
    want[0] = 0;
    if (n == 0) { char const* t = "INTERNAL"; for (i = 0; t[i]; i++) want[k++] = t[i]; want[k] = 0; }
    else if (!GNUErrors) {
        int last = n - 1;
        for (i = 0; i < n; i++) if (kind[i] == 3) { last = i; break; }           /* innermost include file ends the chain */
        for (i = last; i >= 0; i--) { want[k++] = tok[i][0]; want[k++] = tok[i][1]; } want[k] = 0;
    } else {
        int first = 1;
        for (i = 0; i < n; i++) if (kind[i] == 3) {
            if (inner < 0) inner = i;
            else { if (first) { want[k++] = 'F'; first = 0; } else { want[k++] = ','; want[k++] = 'N'; } want[k++] = tok[i][0]; want[k++] = tok[i][1]; }
        }
        if (k > 0) want[k++] = ':';
        if (inner >= 0) { want[k++] = tok[inner][0]; want[k++] = tok[inner][1]; }
        want[k] = 0;
    }
    r = GetErrorPos();
    VPOST(g_bad_fmt == 0, "harness: every print format on the path is known to the monitor");
    if (n == 0 || !GNUErrors || k > 0) {
        VPOST(r != NULL, "C20: a position text is produced");
        if (r) { int eq = 1; for (i = 0; i < 24; i++) { if (r[i] != want[i]) { eq = 0; break; } if (!want[i]) break; }
            VPOST(eq, "C20: the position names the innermost include file and every macro / repetition level inside it, outermost first (native); "
                      "the include chain and the innermost file:line (-gnuerrors)"); }
        VREACH("text");
#if VERIF_LEVELS == 3 && !VERIF_GNU
        if (kind[2] == 3 && kind[1] != 3 && kind[0] != 3) VREACH("file + two levels");
#endif
#if VERIF_LEVELS == 3 && VERIF_GNU
        if (kind[0] == 3 && kind[1] == 3 && kind[2] == 3) VREACH("gnu include chain");
#endif
    }
    VREACH("end");
}
