"""C12 -- conditional assembly selects exactly the documented branch (asmif.c)"""
from vdriver import G
LEVEL = "proof"
SRC = "harness/C12/h_asmif.c"
LINK = ["tempresult.c", "asmdef.c"]
STUBS = ["stubs/gerr.c"]
GROUPS = []
def g(fn, **kw):
    GROUPS.append(G("if_" + fn, SRC, "h_" + fn, enforce=[fn], link=LINK, stubs=STUBS, unwind=kw.pop("unwind", 24),
                    timeout=kw.pop("timeout", 300), **kw))
for f in ["PushIF", "CodeIF", "CodeIFDEF", "CodeIFUSED", "CodeELSEIF", "CodeENDIF", "CodeELSECASE", "CodeENDCASE"]:
    g(f)
g("CodeIFB", loops=True, defs=["-DVERIF_MON_STRLEN"], unwind=24)
g("CodeSWITCH")
g("CodeCASE", bounded="CASE value list of at most 3 values, integer or float (string selectors not covered)")
g("RestoreIFs", bounded="stack depth <= 2 frames")
for m in ["IF", "IFDEF", "IFNDEF", "IFUSED", "IFNUSED", "ELSE", "ELSEIF", "ENDIF", "ENDC", "ENDCASE", "SWITCH", "other"]:
    GROUPS.append(G("ifs_" + m, SRC, "h_CodeIFs_" + m, enforce=[], link=LINK, stubs=STUBS, unwind=24, timeout=300,
                    functions=["CodeIFs"], note="dispatcher executed with the real statement bodies inlined"))
GROUPS.append(G("if_CodeIFEXIST", SRC, "h_CodeIFEXIST", enforce=[], dfcc=False, drop_unused=True, link=LINK, stubs=STUBS, unwind=18, timeout=300, object_bits=12,
                defs=["-DVERIF_IFEXIST", "-DSTRINGSIZE=16"], functions=["CodeIFEXIST"], flags=["--unsigned-overflow-check"],
                bounded="argument text of 0..3 arbitrary characters (quote stripping is decided on the first and last character); file search is an oracle"))
TRUSTED_BASE = ["stubs/gerr.c (WrError/ChkArgCnt count only)",
                "ghost oracles for EvalStrIntExpressionWithFlags / IsSymbolDefined / IsSymbolUsed / FindFunction / FoundMacroByName / FSearch",
                "strmaxcpy/as_snprintf replaced by bounded-write stubs (listing text is not part of the property)"]
ASSUMPTIONS = ["malloc never fails (ifsave_create does not check either)", "nesting depth < 32000 (NestLevel is a 16-bit Integer)",
               "run-level statement follows from the per-statement contracts by the induction in DESIGN.md 3/C12; "
               "dispatch of inactive lines to CodeIFs only (as.c) is assumed"]
NOT_COVERED = ["Produce_Code dispatch in as.c", "FSearch (file search behind IFEXIST)"]
EXPLANATION = ""

MANIFEST = dict(
    category="proof",
    text="Every statement handler of asmif.c (IF, IFDEF/IFNDEF, IFUSED/IFNUSED, IFB/IFNB, ELSEIF/ELSE, ENDIF, SWITCH, CASE, ELSECASE, "
         "ENDCASE, RestoreIFs, dispatcher CodeIFs) is verified on the real translation unit against a contract over the abstract state "
         "(IfAsm, top frame): a branch is assembled iff the enclosing level is, no earlier branch was taken and its condition holds; "
         "misplaced statements are errors and change nothing; pops restore the enclosing level. IFB's argument loop is closed by a loop "
         "contract (unbounded argument count). IFEXIST/IFNEXIST: quote stripping of the name and found-xor-negate (the file search is an oracle). The run-level statement follows by the induction over statements written in DESIGN.md.",
    note="Bounded (not counted as proved): CASE value list <= 3 integer/float values, RestoreIFs stack depth <= 2, IFEXIST argument <= 3 characters. Trusted: ghost oracles for "
         "the expression evaluator and symbol table, listing-text stubs, malloc never fails, dispatch of inactive lines to CodeIFs in as.c.",
)
