/* gerr.h -- ghost model of the assembler's error reporting entry points.
 * WrError & friends only count and remember the last number; they never write to
 * program state.  Trusted: listed in every evidence file that uses it. */
#ifndef GERR_H
#define GERR_H
#include "datatypes.h"
#include "errmsg.h"
extern unsigned long g_err_cnt;   /* number of WrError/WrXError/... calls */
extern int           g_err_last;  /* last error number                     */
#endif
