/* C09 harness: IEEE encoders of the real /repo/ieeefloat.c */
#include "verif.h"
#include "contracts/ieeefloat.contracts.h"
#include <string.h>

unsigned long long g_b64;
unsigned           g_b32;
unsigned short     g_b16;
int                g_f16_finite, g_isnan, g_isinf;
unsigned           gk_byte;
unsigned           g_x_exp15;
unsigned long long g_x_mant64;

#include "ieeefloat.c" /* the real /repo/ieeefloat.c */

static double mk_input(unsigned nbytes) {
    double x;
    float  f;
    VND(x, double);
    memcpy(&g_b64, &x, 8);
    f = (float)x;
    memcpy(&g_b32, &f, 4);
    g_isnan = (x != x);
    g_isinf = (!g_isnan && (x - x) != (x - x));
    VND(gk_byte, uint);
    VASSUME(gk_byte < nbytes);
    return x;
}

void h_Double_2_ieee8(void) {
    Byte    buf[8];
    Boolean big;
    double  x = mk_input(8);
    VND(big, uchar);
    VASSUME(big <= 1);
    Double_2_ieee8(x, buf, big);
    VPOST(buf[gk_byte] == BYTE_OF(g_b64, 8, gk_byte, big), "C09: 64-bit IEEE encoding in the requested byte order");
    VREACH("end");
}

void h_Double_2_ieee4(void) {
    Byte    buf[4];
    Boolean big;
    double  x = mk_input(4);
    VND(big, uchar);
    VASSUME(big <= 1);
    Double_2_ieee4(x, buf, big);
    VPOST(buf[gk_byte] == BYTE_OF(g_b32, 4, gk_byte, big), "C09: 32-bit IEEE encoding (round to nearest even) in the requested byte order");
    VREACH("end");
}

void h_Double_2_ieee2(void) {
    Byte     buf[2];
    Boolean  big, ok;
    _Float16 h;
    double   x = mk_input(2);
    h = (_Float16)x;
    memcpy(&g_b16, &h, 2);
    g_f16_finite = ((g_b16 & 0x7c00) != 0x7c00);
    VND(big, uchar);
    VASSUME(big <= 1);
    ok = Double_2_ieee2(x, buf, big);
    VPOST((ok != 0) == (g_f16_finite || g_isnan || g_isinf), "C09: half precision accepted iff the value fits (else rejected, not truncated)");
    if (ok && !g_isnan) {
        VPOST(buf[gk_byte] == BYTE_OF(g_b16, 2, gk_byte, big), "C09: half precision = IEEE binary16, round to nearest even");
        VREACH("value");
    }
    if (g_isnan) {
        VPOST(ok && (buf[big ? 0 : 1] & 0x7c) == 0x7c && ((buf[big ? 0 : 1] & 3) | buf[big ? 1 : 0]) != 0, "C09: half precision NaN stays NaN");
        VREACH("nan");
    }
    VREACH("end");
}

void h_Double_2_ieee10(void) {
    Byte    buf[10];
    Boolean big;
    double  x = mk_input(10);
    VND(big, uchar);
    VASSUME(big <= 1);
    /* the specification's answer: any (exp15, mant64) satisfying the loop-free definition
     * (it is unique) */
    VND(g_x_exp15, uint);
    VND(g_x_mant64, u64);
    VASSUME(IS_X80_OF(g_b64, g_x_exp15, g_x_mant64));
#ifdef VERIF_EXCLUDE_C09_X80_ZERO_DENORM
    VASSUME(D_EXP(g_b64) != 0);
#endif
#ifdef VERIF_ONLY_C09_X80_ZERO_DENORM
    VASSUME(D_EXP(g_b64) == 0);
#endif
    Double_2_ieee10(x, buf, big);
    VPOST(buf[gk_byte] == X80_LE_BYTE(D_SIGN(g_b64), g_x_exp15, g_x_mant64, big ? 9 - gk_byte : gk_byte),
          "C09: 80-bit extended encoding represents the same number (normalised, explicit integer bit)");
    VREACH("end");
}

void h_as_fpclassify(void) {
    int    r;
    double x = mk_input(8);
    r = as_fpclassify(x);
    VPOST(r == ((D_EXP(g_b64) == 2047) ? (D_FRAC(g_b64) ? AS_FP_NAN : AS_FP_INFINITE) : (D_EXP(g_b64) == 0) ? AS_FP_SUBNORMAL : AS_FP_NORMAL),
          "C09: float classification");
    VREACH("end");
}
